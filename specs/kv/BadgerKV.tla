------------------------------ MODULE BadgerKV ------------------------------
(***************************************************************************)
(* The user-visible contract of badger (non-managed and managed mode): a   *)
(* multi-version map with snapshot reads, SSI commits, expiry, per-txn     *)
(* pending writes, iterators with options, rejected commits, the discard   *)
(* watermark and the retention contract of compaction.  Mechanism modules  *)
(* (Oracle, LSM, Disk) refine it; BadgerKVGen generates API histories with *)
(* the observations this module predicts, which the Go harness replays     *)
(* against the real DB.                                                    *)
(*                                                                         *)
(* Code anchors: txn.go (Txn.Get/SetEntry/Delete/Commit/CommitWith,        *)
(* oracle.readTs/newCommitTs/hasConflict/setDiscardTs/discardAtOrBelow),   *)
(* iterator.go (Iterator, Item), db.go (DB.get, sendToWriteCh),            *)
(* managed_db.go (NewTransactionAt, CommitAt, SetDiscardTs), levels.go     *)
(* (subcompact retention rule).  Pure operators live in KVDefs.            *)
(***************************************************************************)
EXTENDS KVDefs

CONSTANTS Txns,       \* finite set of transaction ids
          MaxTs,      \* bound on commit timestamps
          MaxNow,     \* bound on the abstract clock
          Managed,    \* BOOLEAN: managed mode (caller-chosen timestamps)
          UMs, Exps, Discs,  \* user-meta bytes, expiry times (0 = none), discard flags a Set may use
          IterDirs,   \* subset of BOOLEAN: iterator directions explored (reverse?)
          Feat        \* features explored by Next: subset of {"iter", "split", "reject", "compact", "discard", "restart"}

VARIABLES committed,  \* set of entries [k, ts, val, del, um, exp, disc]
          nextTs,     \* oracle.nextTxnTs
          txn,        \* per-transaction record
          now,        \* abstract clock (unix seconds in the code)
          nval,       \* fresh value counter: every Set writes a distinct value
          discardTs,  \* oracle.discardTs (managed mode, DB.SetDiscardTs)
          hw,         \* ghost: largest discard bound any compaction has run with
          clog        \* oracle.committedTxns: the <<key, commit ts>> pairs conflict detection remembers

vars == <<committed, nextTs, txn, now, nval, discardTs, hw, clog>>

NoIter == [open |-> FALSE, o |-> NoOpts, pw |-> [k \in Keys |-> None], phw |-> {}]

IdleTxn == [st |-> "idle", upd |-> FALSE, readTs |-> 0, reads |-> {}, writes |-> [k \in Keys |-> None],
            haswr |-> {}, cts |-> 0, obs |-> {}, it |-> NoIter]

TypeOK ==
    /\ nextTs \in 1..(MaxTs + 1)
    /\ now \in 0..MaxNow
    /\ discardTs \in 0..MaxTs
    /\ hw \in 0..MaxTs
    /\ \A t \in Txns : txn[t].st \in {"idle", "active", "committed", "conflict", "rejected", "discarded"}

Init ==
    /\ committed = {}
    /\ nextTs = 1
    /\ txn = [t \in Txns |-> IdleTxn]
    /\ now = 1
    /\ nval = 1
    /\ discardTs = 0
    /\ hw = 0
    /\ clog = {}

Active(t) == txn[t].st = "active"
ActiveSet == {t \in Txns : Active(t)}

\* ---- transaction start: oracle.readTs (normal) / NewTransactionAt (managed)
InOrder(t) == \A u \in Txns : u < t => txn[u].st # "idle"

Begin(t, upd) ==
    /\ ~Managed
    /\ txn[t].st = "idle" /\ InOrder(t)
    /\ txn' = [txn EXCEPT ![t] = [IdleTxn EXCEPT !.st = "active", !.upd = upd, !.readTs = nextTs - 1]]
    /\ UNCHANGED <<committed, nextTs, now, nval, discardTs, hw, clog>>

\* the caller of a managed DB must not read below the discard timestamp it announced (also
\* not after a restart, which resets oracle.discardTs: hw remembers it)
BeginAt(t, upd, ts) ==
    /\ Managed
    /\ ts >= discardTs /\ ts >= hw
    /\ txn[t].st = "idle" /\ InOrder(t)
    /\ txn' = [txn EXCEPT ![t] = [IdleTxn EXCEPT !.st = "active", !.upd = upd, !.readTs = ts]]
    /\ UNCHANGED <<committed, nextTs, now, nval, discardTs, hw, clog>>

\* the transaction's own pending writes, as entries at version readTs (PendingOverlay)
Pending(t) == IF txn[t].upd THEN PendingAt(txn[t].writes, txn[t].haswr, txn[t].readTs) ELSE {}

\* what Txn.Get returns
GetResult(t, k) ==
    IF txn[t].upd /\ k \in txn[t].haswr
    THEN LET e == txn[t].writes[k] IN
         IF Dead(e, now) THEN Absent
         ELSE [found |-> TRUE, val |-> e.val, ts |-> txn[t].readTs, um |-> e.um, exp |-> e.exp, disc |-> e.disc]
    ELSE ReadAt(committed, k, txn[t].readTs, now)

Get(t, k) ==
    /\ Active(t)
    /\ txn' = [txn EXCEPT ![t].reads = IF txn[t].upd /\ k \notin txn[t].haswr THEN @ \cup {k} ELSE @,
                          ![t].obs = IF txn[t].upd /\ k \notin txn[t].haswr
                                     THEN @ \cup {[k |-> k, res |-> GetResult(t, k)]} ELSE @]
    /\ UNCHANGED <<committed, nextTs, now, nval, discardTs, hw, clog>>

\* Txn.SetEntry; exp = 0 means no expiry, otherwise the absolute expiry time
Set(t, k, um, exp, disc) ==
    /\ Active(t) /\ txn[t].upd
    /\ k \notin Internal                 \* Txn.modify rejects the reserved prefix (C28)
    /\ txn' = [txn EXCEPT ![t].writes[k] = [k |-> k, ts |-> 0, val |-> nval, del |-> FALSE, um |-> um,
                                             exp |-> exp, disc |-> disc],
                          ![t].haswr = @ \cup {k}]
    /\ nval' = nval + 1
    /\ UNCHANGED <<committed, nextTs, now, discardTs, hw, clog>>

Delete(t, k) ==
    /\ Active(t) /\ txn[t].upd
    /\ k \notin Internal
    /\ txn' = [txn EXCEPT ![t].writes[k] = [None EXCEPT !.k = k, !.del = TRUE],
                          ![t].haswr = @ \cup {k}]
    /\ UNCHANGED <<committed, nextTs, now, nval, discardTs, hw, clog>>

\* A Set refused with ErrTxnTooBig (Txn.checkSize) leaves the transaction as it was.
SetRejected(t, k) ==
    /\ Active(t) /\ txn[t].upd
    /\ UNCHANGED vars

\* oracle.hasConflict: some key read by t was written by a commit after t's read ts
\* (the conflict log is volatile: Restart empties it, SetDiscardTs prunes it)
Conflict(t) == \E c \in clog : c[2] > txn[t].readTs /\ c[1] \in txn[t].reads

WritesAt(t, ts) == {[txn[t].writes[k] EXCEPT !.ts = ts] : k \in txn[t].haswr}

NoOpenIter(t) == ~txn[t].it.open

\* Txn.Commit / Txn.CommitWith in normal mode.  A transaction without writes just ends.
Commit(t) ==
    /\ ~Managed
    /\ Active(t) /\ NoOpenIter(t)
    /\ IF txn[t].haswr = {}
       THEN /\ txn' = [txn EXCEPT ![t].st = "discarded"]
            /\ UNCHANGED <<committed, nextTs, clog>>
       ELSE IF Conflict(t)
       THEN /\ txn' = [txn EXCEPT ![t].st = "conflict"]
            /\ UNCHANGED <<committed, nextTs, clog>>
       ELSE /\ nextTs <= MaxTs
            /\ committed' = committed \cup WritesAt(t, nextTs)
            /\ clog' = clog \cup {<<k, nextTs>> : k \in txn[t].haswr}
            /\ nextTs' = nextTs + 1
            /\ txn' = [txn EXCEPT ![t].st = "committed", ![t].cts = nextTs]
    /\ UNCHANGED <<now, nval, discardTs, hw>>

\* Txn.CommitAt in managed mode: the caller picks the timestamp (any order; not below the
\* discard timestamp: oracle.newCommitTs asserts ts >= lastCleanupTs); conflict detection
\* is still performed against the commits recorded so far.
CommitAt(t, ts) ==
    /\ Managed
    /\ ts >= discardTs /\ ts >= hw     \* also not below a discard timestamp used before a restart
    /\ Active(t) /\ NoOpenIter(t)
    /\ IF txn[t].haswr = {}
       THEN /\ txn' = [txn EXCEPT ![t].st = "discarded"]
            /\ UNCHANGED <<committed, clog>>
       ELSE IF Conflict(t)
       THEN /\ txn' = [txn EXCEPT ![t].st = "conflict"]
            /\ UNCHANGED <<committed, clog>>
       ELSE /\ committed' = Overlay(committed, WritesAt(t, ts))
            /\ clog' = clog \cup {<<k, ts>> : k \in txn[t].haswr}
            /\ txn' = [txn EXCEPT ![t].st = "committed", ![t].cts = ts]
    /\ UNCHANGED <<nextTs, now, nval, discardTs, hw>>

\* A commit refused by the write path (ErrBlockedWrites while a drop is in progress or
\* after Close, ErrTxnTooBig in sendToWriteCh): nothing becomes visible.
CommitRejected(t, closed) ==
    /\ Active(t) /\ NoOpenIter(t)
    /\ txn[t].haswr # {}
    /\ ~Conflict(t)
    /\ txn' = [txn EXCEPT ![t].st = "rejected"]
    \* refused because the DB was closed: the DB is opened again afterwards (see Restart);
    \* otherwise the commit timestamp was already allocated (oracle.newCommitTs precedes
    \* sendToWriteCh) and stays unused
    /\ clog' = IF closed THEN {} ELSE clog
    /\ discardTs' = IF closed THEN 0 ELSE discardTs
    /\ IF Managed \/ closed THEN nextTs' = nextTs ELSE (nextTs <= MaxTs /\ nextTs' = nextTs + 1)
    /\ UNCHANGED <<committed, now, nval, hw>>

Discard(t) ==
    /\ Active(t) /\ NoOpenIter(t)
    /\ txn' = [txn EXCEPT ![t].st = "discarded"]
    /\ UNCHANGED <<committed, nextTs, now, nval, discardTs, hw, clog>>

Tick ==
    /\ now < MaxNow
    /\ now' = now + 1
    /\ UNCHANGED <<committed, nextTs, txn, nval, discardTs, hw, clog>>

\* ---- iteration
\* The store an iterator of t created now ranges over: snapshot plus the pending writes as
\* they are at creation time (newPendingWritesIterator copies them).
IterStore(t, pw, phw) == Overlay(committed, IF txn[t].upd THEN PendingAt(pw, phw, txn[t].readTs) ELSE {})

IterItems(t, o, pw, phw) == IterObs(IterStore(t, pw, phw), o, txn[t].readTs, now)

\* keys recorded as read by running the iterator (Iterator.Seek with a non-empty key, and
\* Iterator.Item for every yielded item)
IterReads(t, o, pw, phw) ==
    LET s == IterItems(t, o, pw, phw)
    IN (IF o.seek # 0 THEN {o.seek} ELSE {}) \cup {s[i].k : i \in 1..Len(s)}

\* one-step iteration: NewIterator(o) ; Seek/Rewind ; loop ; Close
IterateO(t, o) ==
    /\ Active(t) /\ NoOpenIter(t)
    /\ WellFormed(o)
    /\ LET rd == IterReads(t, o, txn[t].writes, txn[t].haswr) IN
       txn' = [txn EXCEPT ![t].reads = IF txn[t].upd THEN @ \cup rd ELSE @,
                          ![t].obs = IF txn[t].upd /\ ~o.all /\ o.since = 0
                                     THEN @ \cup {[k |-> k, res |-> ReadAt(committed, k, txn[t].readTs, now)] :
                                                    k \in rd \ (txn[t].haswr \cup Internal)}
                                     ELSE @]
    /\ UNCHANGED <<committed, nextTs, now, nval, discardTs, hw, clog>>

\* the plain iterator of the first version of this contract: default options, Seek(from)
PlainOpts(from, rev) == [NoOpts EXCEPT !.seek = from, !.rev = rev]
IterResult(t, from, rev) == IterItems(t, PlainOpts(from, rev), txn[t].writes, txn[t].haswr)
Iterate(t, from, rev) == IterateO(t, PlainOpts(from, rev))

\* two-step iteration: the pending writes are captured by NewIterator; Sets made between
\* NewIterator and the loop are not seen by this iterator (iterator.go:451-460)
IterOpen(t, o) ==
    /\ Active(t) /\ NoOpenIter(t)
    /\ WellFormed(o)
    /\ txn' = [txn EXCEPT ![t].it = [open |-> TRUE, o |-> o, pw |-> txn[t].writes, phw |-> txn[t].haswr]]
    /\ UNCHANGED <<committed, nextTs, now, nval, discardTs, hw, clog>>

IterRunResult(t) == IterItems(t, txn[t].it.o, txn[t].it.pw, txn[t].it.phw)

IterRun(t) ==
    /\ Active(t) /\ txn[t].it.open
    /\ txn' = [txn EXCEPT ![t].reads = IF txn[t].upd
                                       THEN @ \cup IterReads(t, txn[t].it.o, txn[t].it.pw, txn[t].it.phw) ELSE @,
                          ![t].it = NoIter]
    /\ UNCHANGED <<committed, nextTs, now, nval, discardTs, hw, clog>>

\* ---- discard watermark and compaction (retention contract, NumVersionsToKeep = 1)
\* DB.SetDiscardTs: monotone (oracle.cleanupCommittedTransactions asserts it); the caller
\* promises that no reader below it is or will be active.
SetDiscardTs(ts) ==
    /\ Managed
    /\ ts >= discardTs /\ ts <= MaxTs
    /\ \A t \in ActiveSet : txn[t].readTs >= ts
    /\ discardTs' = ts
    /\ clog' = {c \in clog : c[2] > ts}      \* cleanupCommittedTransactions
    /\ UNCHANGED <<committed, nextTs, txn, now, nval, hw>>

\* oracle.discardAtOrBelow: discardTs in managed mode, the read watermark otherwise (the
\* read timestamp of the oldest open transaction, at most the last commit)
Bound == IF Managed THEN discardTs
         ELSE Min({txn[t].readTs : t \in ActiveSet} \cup {nextTs - 1})

\* what a compaction may remove: a version at or below the bound that is shadowed by a newer
\* version at or below the bound, or a dead version at or below the bound with nothing older
\* left underneath it (levels.go subcompact: "lastValidVersion", "hasOverlap")
Removable(e) ==
    /\ e.ts <= Bound
    /\ \/ \E f \in committed : f.k = e.k /\ f.ts > e.ts /\ f.ts <= Bound
       \/ Dead(e, now) /\ ~\E g \in committed : g.k = e.k /\ g.ts < e.ts

Compact(e) ==
    /\ e \in committed
    /\ Removable(e)
    /\ committed' = committed \ {e}
    /\ hw' = IF Bound > hw THEN Bound ELSE hw
    /\ UNCHANGED <<nextTs, txn, now, nval, discardTs, clog>>

\* Close + Open: nothing visible changes; the oracle starts with an empty conflict log and
\* (managed mode) discardTs 0. Needs every transaction ended.
Restart ==
    /\ ActiveSet = {}
    /\ clog' = {}
    /\ discardTs' = 0
    /\ UNCHANGED <<committed, nextTs, txn, now, nval, hw>>

Next ==
    \/ \E t \in Txns, u \in BOOLEAN : Begin(t, u)
    \/ \E t \in Txns, u \in BOOLEAN, ts \in 0..MaxTs : BeginAt(t, u, ts)
    \/ \E t \in Txns, k \in Keys : Get(t, k) \/ Delete(t, k)
    \/ \E t \in Txns, k \in Keys, um \in UMs, exp \in Exps, d \in Discs : Set(t, k, um, exp, d)
    \/ \E t \in Txns : Commit(t) \/ Discard(t)
    \/ "reject" \in Feat /\ \E t \in Txns : CommitRejected(t, FALSE)
    \/ \E t \in Txns, ts \in 1..MaxTs : CommitAt(t, ts)
    \/ "iter" \in Feat /\ \E t \in Txns, k \in Keys, r \in IterDirs : Iterate(t, k, r)
    \/ "split" \in Feat /\ \E t \in Txns, k \in Keys, r \in IterDirs : IterOpen(t, PlainOpts(k, r))
    \/ \E t \in Txns : IterRun(t)
    \/ "discard" \in Feat /\ \E ts \in 1..MaxTs : SetDiscardTs(ts)
    \/ "compact" \in Feat /\ \E e \in committed : Compact(e)
    \/ "restart" \in Feat /\ Restart
    \/ Tick

Spec == Init /\ [][Next]_vars

-----------------------------------------------------------------------------
(* Properties *)

\* C03: successful commits get distinct, increasing timestamps
UniqueTs == \A a, b \in Txns :
    (a # b /\ txn[a].st = "committed" /\ txn[b].st = "committed" /\ ~Managed) => txn[a].cts # txn[b].cts

\* C03: all-or-nothing: every committed transaction's writes are all present (until a
\* compaction may drop them), and every entry belongs to a committed transaction: none of a
\* conflicting, rejected or discarded one
AtomicVisibility ==
    /\ \A t \in Txns : (txn[t].st = "committed" /\ ~Managed /\ hw = 0) => WritesAt(t, txn[t].cts) \subseteq committed
    /\ \A c \in committed : \E t \in Txns : txn[t].st = "committed" /\ txn[t].cts = c.ts /\ c.k \in txn[t].haswr

\* C03: a rejected commit (conflict or refused by the write path) leaves no trace
RejectedLeavesNoTrace ==
    [][\A t \in Txns : (txn'[t].st \in {"conflict", "rejected"} /\ txn[t].st = "active")
          => (committed' = committed /\ (txn'[t].st = "conflict" => nextTs' = nextTs))]_vars

\* C02: commit-timestamp order is a serial order: every read a committed update
\* transaction made from the snapshot returns the same answer when re-executed just
\* before its commit timestamp (expiry aside: the clock is part of the read).
Serializable ==
    \A t \in Txns : (txn[t].st = "committed" /\ ~Managed /\ hw = 0) =>
        \A o \in txn[t].obs :
            Cands(committed, o.k, txn[t].cts - 1) = Cands(committed, o.k, txn[t].readTs)

\* C02 (other direction): a transaction is rejected only if there is a real overlap
RejectedOnlyOnOverlap ==
    \A t \in Txns : (txn[t].st = "conflict" /\ hw = 0) =>
        \E c \in committed : c.ts > txn[t].readTs /\ c.k \in txn[t].reads

\* C01: a snapshot never changes under commits by others (action property); compaction
\* steps may remove versions, but never one an open transaction can see (SnapshotRead)
SnapshotStable ==
    [][\A t \in Txns : (txn[t].st = "active" /\ txn'[t].st = "active") =>
          \A k \in Keys : Cands(committed', k, txn[t].readTs) = Cands(committed, k, txn[t].readTs)
          \/ Managed \/ committed' \subseteq committed]_vars

\* C01: every read an open transaction has made from its snapshot is repeatable: the
\* current store still gives the same answer at its read timestamp, whatever commits,
\* ticks (a live entry may expire) and compactions happened since
SnapshotRead ==
    \A t \in Txns : (txn[t].st = "active" /\ ~Managed) =>
        \A o \in txn[t].obs :
            LET r == ReadAt(committed, o.k, txn[t].readTs, now)
            IN IF o.res.found THEN (r = o.res \/ (~r.found /\ o.res.exp # 0 /\ o.res.exp <= now))
               ELSE ~r.found

\* C04: a transaction's Get of a key it wrote returns the pending write; other transactions
\* never see it
OwnWrites ==
    \A t \in Txns : (txn[t].st = "active" /\ txn[t].upd) =>
        /\ \A k \in txn[t].haswr :
              LET e == txn[t].writes[k] IN
              GetResult(t, k) = IF Dead(e, now) THEN Absent
                                ELSE [Obs(e) EXCEPT !.ts = txn[t].readTs]
        /\ \A u \in Txns \ {t} : txn[u].st = "active" =>
              \A k \in Keys \ txn[u].haswr : GetResult(u, k) = ReadAt(committed, k, txn[u].readTs, now)

\* C04: the plain iterator agrees with Get on every key (own writes included)
IterAgreesWithGet ==
    \A t \in Txns : txn[t].st = "active" =>
        LET s == IterResult(t, Min(Keys), FALSE) IN
        /\ \A i \in 1..Len(s) : GetResult(t, s[i].k).found /\ GetResult(t, s[i].k).val = s[i].res.val
        /\ \A k \in Keys \ Internal : GetResult(t, k).found => \E i \in 1..Len(s) : s[i].k = k

\* C03: commit timestamps never decrease
TsMonotone == [][nextTs' >= nextTs]_vars

\* C36 / C12 contract: removing versions (compaction) never changes a read at or above the
\* discard bound in force, at any timestamp
ReadStableAboveDiscard ==
    [][(committed' # committed /\ committed' \subseteq committed) =>
          \A k \in Keys, ts \in 0..(MaxTs + 1) :
              ts >= Bound => ReadAt(committed', k, ts, now) = ReadAt(committed, k, ts, now)]_vars

\* C36: SetDiscardTs by itself changes no read
DiscardTsInvisible ==
    [][discardTs' # discardTs => committed' = committed]_vars

\* C11: the next commit timestamp is above every stored version (also after Restart)
NextTsAboveAll == ~Managed => \A c \in committed : c.ts < nextTs

\* C07: a restart (empty conflict log, discardTs reset) changes no read and no timestamp
IsRestartStep == (clog' = {} /\ clog # {}) \/ discardTs' < discardTs
RestartInvisible == [][IsRestartStep => (committed' = committed /\ nextTs' = nextTs /\ now' = now /\ hw' = hw)]_vars

\* C33: the passing of time alone never makes a key appear: an expired newest version hides
\* the older versions exactly as a delete does
TickNeverReveals ==
    [][(now' # now) => \A k \in Keys, ts \in 0..(MaxTs + 1) :
          ReadAt(committed', k, ts, now').found => ReadAt(committed, k, ts, now) = ReadAt(committed', k, ts, now')]_vars

\* C33: what Get returns is never expired or deleted
NeverReturnsDead ==
    \A t \in Txns, k \in Keys : txn[t].st = "active" =>
        LET r == GetResult(t, k) IN r.found => (r.exp = 0 \/ r.exp > now)

\* in normal mode the conflict log always covers what an open transaction can conflict with:
\* every committed entry newer than the read timestamp of an open transaction is in it
ConflictLogSufficient ==
    ~Managed => \A t \in ActiveSet : \A c \in committed :
        c.ts > txn[t].readTs => <<c.k, c.ts>> \in clog
=============================================================================
