------------------------------ MODULE KVIterGen ------------------------------
(***************************************************************************)
(* Exhaustive generator for the iterator contract (C05) and the pending-   *)
(* write overlay (C04): TLC enumerates every store (set of versions over   *)
(* StoreKeys, in canonical order), every sequence of pending operations    *)
(* of a read-write transaction, and emits one case per (store, pending     *)
(* sequence) carrying, for every iterator option record in Queries, the    *)
(* sequence KVDefs!IterSeq predicts, plus the predicted Get of every key   *)
(* and a list of placements (which physical source holds which version:    *)
(* active memtable, immutable memtable, two level-0 tables, level 1, 2).   *)
(* The invariant Theorems checks KVDefs!IterSeqProps on every case.        *)
(***************************************************************************)
EXTENDS KVDefs, Json, SequencesExt

CONSTANTS StoreKeys,    \* keys that may hold versions
          TsSet,        \* versions a stored entry may carry
          Kinds,        \* subset of {"val", "del", "exp", "meta"}
          MaxVersions,  \* bound on the number of stored versions
          Contiguous,   \* BOOLEAN: used versions must be 1..n (store is built by ordinary commits)
          OnePerKey,    \* BOOLEAN: at most one version per key, versions 1..n in key order
          ReadTs,       \* read timestamp of the transaction; 0 = the newest stored version
          Now,          \* clock value during the reads
          NSrc,         \* number of placement sources
          NMixed,       \* number of mixed placement variants per store (besides the uniform ones);
                        \* -1: every placement (all functions from the stored versions to the sources)
          PendKeys, PendKinds, MaxPend,   \* pending operations of the read-write transaction
          Queries       \* set of iterator option records evaluated for every case

VARIABLES store,  \* sequence of entries in canonical order (key ascending, version ascending)
          pend,   \* sequence of pending operations [k, kind]
          done

gvars == <<store, pend, done>>

Attr(kind, k, ts, val) ==
    CASE kind = "val"  -> [k |-> k, ts |-> ts, val |-> val, del |-> FALSE, um |-> 0, exp |-> 0, disc |-> FALSE]
      [] kind = "del"  -> [k |-> k, ts |-> ts, val |-> 0, del |-> TRUE, um |-> 0, exp |-> 0, disc |-> FALSE]
      [] kind = "exp"  -> [k |-> k, ts |-> ts, val |-> val, del |-> FALSE, um |-> 0, exp |-> Now, disc |-> FALSE]
      [] kind = "meta" -> [k |-> k, ts |-> ts, val |-> val, del |-> FALSE, um |-> 7, exp |-> Now + 1, disc |-> TRUE]

StoreSet == {store[i] : i \in 1..Len(store)}
UsedTs == {store[i].ts : i \in 1..Len(store)}
Rts == IF ReadTs # 0 THEN ReadTs ELSE IF store = <<>> THEN 0 ELSE Max(UsedTs)

\* canonical order: a new version is larger (key, then version) than the last one
After(k, ts) == IF store = <<>> THEN TRUE
                ELSE LET l == store[Len(store)] IN (l.k < k \/ (l.k = k /\ l.ts < ts))

AddVersion(k, ts, kind) ==
    /\ ~done /\ pend = <<>> /\ Len(store) < MaxVersions
    /\ After(k, ts)
    /\ OnePerKey => (ts = Len(store) + 1 /\ \A i \in 1..Len(store) : store[i].k # k)
    /\ store' = Append(store, Attr(kind, k, ts, k * 10 + ts))
    /\ UNCHANGED <<pend, done>>

StoreOK == IF ~Contiguous \/ store = <<>> THEN TRUE ELSE UsedTs = 1..Max(UsedTs)

AddPend(k, kind) ==
    /\ ~done /\ Len(pend) < MaxPend /\ StoreOK
    /\ pend' = Append(pend, [k |-> k, kind |-> kind])
    /\ UNCHANGED <<store, done>>

Finish == /\ ~done /\ StoreOK
          /\ done' = TRUE
          /\ UNCHANGED <<store, pend>>

GenInit == store = <<>> /\ pend = <<>> /\ done = FALSE
GenNext ==
    \/ \E k \in StoreKeys, ts \in TsSet, kind \in Kinds : AddVersion(k, ts, kind)
    \/ \E k \in PendKeys, kind \in PendKinds : AddPend(k, kind)
    \/ Finish
GenSpec == GenInit /\ [][GenNext]_gvars

\* the pending writes as the transaction's map: the last operation on a key wins
PendIdx(k) == {i \in 1..Len(pend) : pend[i].k = k}
PendKeysSet == {pend[i].k : i \in 1..Len(pend)}
PendEntry(k) == LET i == Max(PendIdx(k)) IN Attr(pend[i].kind, k, Rts, 100 + i)
PendSet == {PendEntry(k) : k \in PendKeysSet}
Full == Overlay(StoreSet, PendSet)

GetOf(k) == IF k \in PendKeysSet
            THEN LET e == PendEntry(k) IN IF Dead(e, Now) THEN Absent ELSE Obs(e)
            ELSE ReadAt(StoreSet, k, Rts, Now)

Code(e) == e.k * 1000 + e.ts
QRes(o) == LET s == IterSeq(Full, o, Rts, Now) IN [i \in 1..Len(s) |-> Code(s[i])]

\* placements: variant v assigns the i-th stored version to source Src(i, v); variants
\* 1..NSrc are uniform (everything in one source), the others mix sources
Src(i, v) == IF v <= NSrc THEN v ELSE ((i * 3 + v * (i + 1) + v) % NSrc) + 1
Placements == IF NMixed >= 0 THEN [v \in 1..(NSrc + NMixed) |-> [i \in 1..Len(store) |-> Src(i, v)]]
              ELSE SetToSeq([1..Len(store) -> 1..NSrc])

QuerySeq == SetToSeq({o \in Queries : WellFormed(o)})
Case == [store |-> store,
         pend |-> [i \in 1..Len(pend) |-> [k |-> pend[i].k, kind |-> pend[i].kind,
                                           e |-> Attr(pend[i].kind, pend[i].k, Rts, 100 + i)]],
         rts |-> Rts, now |-> Now,
         gets |-> [k \in Keys |-> GetOf(k)],
         pl |-> Placements,
         q |-> [i \in 1..Len(QuerySeq) |-> [o |-> QuerySeq[i], r |-> QRes(QuerySeq[i])]]]

Emit == done => PrintT(<<"CASE", ToJson(Case)>>)

\* the theorems of KVDefs about IterSeq, on every generated case and query
Theorems == done => \A o \in Queries : WellFormed(o) => IterSeqProps(Full, o, Rts, Now)

\* plain iteration agrees with Get (own writes included)
IterGetAgree == done =>
    LET s == IterSeq(Full, NoOpts, Rts, Now) IN
    /\ \A i \in 1..Len(s) : GetOf(s[i].k) = Obs(s[i])
    /\ \A k \in Keys \ Internal : GetOf(k).found => \E i \in 1..Len(s) : s[i].k = k
=============================================================================
