------------------------------ MODULE Threshold ------------------------------
(***************************************************************************)
(* The value-log decision of one write request (C06).                      *)
(*                                                                         *)
(* Whether an entry's value goes to the value log (the LSM tree then holds *)
(* a value pointer) or stays inline is decided by comparing the value size *)
(* with a threshold, at three sites:                                       *)
(*   Estimate  Txn.checkSize / DB.sendToWriteCh / KVLoader.Set             *)
(*             (structs.go estimateSizeAndSetThreshold)                    *)
(*   VlogWrite valueLog.write    (value.go:930, skipVlogAndSetThreshold)   *)
(*   LsmWrite  DB.writeToLSM     (db.go:832,   skipVlogAndSetThreshold)    *)
(* With Options.VLogPercentile > 0 the threshold is dynamic: a listener    *)
(* goroutine (vlogThreshold.listenForValueThresholdUpdate) changes it      *)
(* asynchronously, also between VlogWrite and LsmWrite of the same entry.  *)
(* The code keeps the sites consistent by caching the threshold in the     *)
(* entry the first time any site looks at it (Entry.valThreshold).         *)
(*                                                                         *)
(* DecisionConsistent is the property: the value is in the value log iff   *)
(* the LSM entry is a pointer.  Cached = FALSE models the code without the *)
(* per-entry cache; TLC then finds the inconsistency (non-vacuity).        *)
(* Entries created by GC write-back or loaders start without a cached      *)
(* threshold and may skip Estimate.                                        *)
(***************************************************************************)
EXTENDS Integers, FiniteSets

CONSTANTS Entries,     \* entry ids
          Sizes,       \* possible value sizes
          Thresholds,  \* values the dynamic threshold may take
          T0,          \* initial threshold (Options.ValueThreshold)
          Cached       \* BOOLEAN: entries cache the threshold (the code as it is)

VARIABLES thr,    \* vlogThreshold.valueThreshold
          size,   \* value size per entry
          cache,  \* Entry.valThreshold (0 = not set)
          stage,  \* "new" -> "sized" -> "vlog" -> "lsm"
          inVlog, \* decision of valueLog.write: TRUE = value written to the value log
          isPtr   \* decision of writeToLSM: TRUE = LSM entry is a value pointer

vars == <<thr, size, cache, stage, inVlog, isPtr>>

Init ==
    /\ thr = T0
    /\ size \in [Entries -> Sizes]
    /\ cache = [e \in Entries |-> 0]
    /\ stage = [e \in Entries |-> "new"]
    /\ inVlog = [e \in Entries |-> FALSE]
    /\ isPtr = [e \in Entries |-> FALSE]

\* listenForValueThresholdUpdate
Update(v) ==
    /\ v \in Thresholds /\ v # thr
    /\ thr' = v
    /\ UNCHANGED <<size, cache, stage, inVlog, isPtr>>

\* the threshold a site uses for entry e, and the cache afterwards
Eff(e) == IF Cached /\ cache[e] # 0 THEN cache[e] ELSE thr
CacheAfter(e) == IF Cached THEN [cache EXCEPT ![e] = Eff(e)] ELSE cache

Estimate(e) ==
    /\ stage[e] = "new"
    /\ cache' = CacheAfter(e)
    /\ stage' = [stage EXCEPT ![e] = "sized"]
    /\ UNCHANGED <<thr, size, inVlog, isPtr>>

\* skipVlogAndSetThreshold returns len(Value) < valThreshold: skip the value log
VlogWrite(e) ==
    /\ stage[e] \in {"new", "sized"}
    /\ cache' = CacheAfter(e)
    /\ inVlog' = [inVlog EXCEPT ![e] = ~(size[e] < Eff(e))]
    /\ stage' = [stage EXCEPT ![e] = "vlog"]
    /\ UNCHANGED <<thr, size, isPtr>>

LsmWrite(e) ==
    /\ stage[e] = "vlog"
    /\ cache' = CacheAfter(e)
    /\ isPtr' = [isPtr EXCEPT ![e] = ~(size[e] < Eff(e))]
    /\ stage' = [stage EXCEPT ![e] = "lsm"]
    /\ UNCHANGED <<thr, size, inVlog>>

Next ==
    \/ \E v \in Thresholds : Update(v)
    \/ \E e \in Entries : Estimate(e) \/ VlogWrite(e) \/ LsmWrite(e)

Spec == Init /\ [][Next]_vars

TypeOK ==
    /\ thr \in Thresholds \cup {T0}
    /\ \A e \in Entries : cache[e] \in Thresholds \cup {T0, 0}

\* C06: a pointer in the LSM tree iff the value is in the value log (otherwise a read
\* follows a zero pointer, or the value log holds an unreferenced value)
DecisionConsistent == \A e \in Entries : stage[e] = "lsm" => (isPtr[e] = inVlog[e])

\* the decision is the one the cached threshold dictates
DecisionByCache == \A e \in Entries : (Cached /\ stage[e] = "lsm") => (isPtr[e] = ~(size[e] < cache[e]))

\* once set, an entry's cached threshold never changes
CacheStable == [][\A e \in Entries : cache[e] # 0 => cache'[e] = cache[e]]_vars
=============================================================================
