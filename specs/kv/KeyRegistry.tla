----------------------------- MODULE KeyRegistry -----------------------------
(***************************************************************************)
(* Encryption at rest (C23): master key, data keys with a rotation         *)
(* interval, files bound to a data key, IV discipline.                     *)
(*                                                                         *)
(* Code anchors: key_registry.go (OpenKeyRegistry: sanity text encrypted   *)
(* with the master key; LatestDataKey: a new data key when the newest one  *)
(* is older than EncryptionKeyRotationDuration; WriteKeyRegistry: rewrite  *)
(* under a new master key = `badger rotate`), memtable.go (logFile header  *)
(* keyID + 12-byte baseIV; record IV = baseIV || offset), table/builder.go *)
(* (fresh random IV per block and for the index), table.go (KeyID in the   *)
(* MANIFEST).                                                              *)
(*                                                                         *)
(* Random values (base IVs, block IVs) are modelled as nonces drawn from a *)
(* counter: the generator never repeats; what the specification checks is  *)
(* the discipline around them: one IV per (file, offset), offsets never    *)
(* re-used below the valid end of a log, every file keeps naming a data    *)
(* key the registry still has, master-key rotation re-encrypts the         *)
(* registry only.                                                          *)
(***************************************************************************)
EXTENDS Integers, FiniteSets

CONSTANTS MasterKeys,   \* possible master keys
          MaxDataKeys,  \* bound on data keys
          MaxFiles,     \* bound on files
          MaxOff,       \* bound on log offsets
          MaxClock,     \* bound on the clock
          Rotation,     \* rotation interval (clock units)
          ReuseOffsets  \* BOOLEAN: defect switch: a re-opened log is appended below its valid end

VARIABLES master,    \* master key the registry file is encrypted with
          dataKeys,  \* set of [id, created]
          files,     \* set of [f, kind ("log"/"table"), key (data key id), base (nonce), end (log write offset)]
          units,     \* set of encrypted units [f, key, iv, id (ghost: distinguishes two writes)]; iv = <<base, off>> for logs, <<nonce, 0>> for blocks
          nonce,     \* source of fresh random values
          clock,
          open,      \* is a DB open, and with which master key
          readable   \* ghost: set of files the last successful Open could decrypt

vars == <<master, dataKeys, files, units, nonce, clock, open, readable>>

NoKey == "none"

Init ==
    /\ master \in MasterKeys
    /\ dataKeys = {}
    /\ files = {}
    /\ units = {}
    /\ nonce = 1
    /\ clock = 0
    /\ open = NoKey
    /\ readable = {}

Latest == IF dataKeys = {} THEN 0 ELSE CHOOSE i \in {d.id : d \in dataKeys} : \A d \in dataKeys : d.id <= i
Created(i) == (CHOOSE d \in dataKeys : d.id = i).created

\* Open with master key m: succeeds iff m decrypts the sanity text
Open(m) ==
    /\ open = NoKey
    /\ m = master            \* ErrEncryptionKeyMismatch otherwise: nothing changes (WrongKeyRejected)
    /\ open' = m
    /\ readable' = {fl.f : fl \in {x \in files : x.key \in {d.id : d \in dataKeys}}}
    /\ UNCHANGED <<master, dataKeys, files, units, nonce, clock>>

OpenWrong(m) ==
    /\ open = NoKey
    /\ m # master
    /\ UNCHANGED vars

Close ==
    /\ open # NoKey
    /\ open' = NoKey
    /\ UNCHANGED <<master, dataKeys, files, units, nonce, clock, readable>>

Tick ==
    /\ clock < MaxClock
    /\ clock' = clock + 1
    /\ UNCHANGED <<master, dataKeys, files, units, nonce, open, readable>>

\* LatestDataKey: the newest key, or a new one when it is older than the rotation interval
NeedNew == dataKeys = {} \/ clock - Created(Latest) >= Rotation
KeyForNewFile == IF NeedNew THEN Latest + 1 ELSE Latest
KeysAfter == IF NeedNew THEN dataKeys \cup {[id |-> Latest + 1, created |-> clock]} ELSE dataKeys

\* a new log file (memtable WAL / value log): header = data key id + fresh base IV
NewLog(f) ==
    /\ open # NoKey
    /\ f \notin {x.f : x \in files} /\ Cardinality(files) < MaxFiles
    /\ Cardinality(KeysAfter) <= MaxDataKeys
    /\ dataKeys' = KeysAfter
    /\ files' = files \cup {[f |-> f, kind |-> "log", key |-> KeyForNewFile, base |-> nonce, end |-> 0]}
    /\ nonce' = nonce + 1
    /\ UNCHANGED <<master, units, clock, open, readable>>

\* append a record to a log at its write offset: IV = baseIV || offset
AppendRec(fl) ==
    /\ open # NoKey
    /\ fl \in files /\ fl.kind = "log" /\ fl.end < MaxOff
    /\ units' = units \cup {[f |-> fl.f, key |-> fl.key, iv |-> <<fl.base, fl.end>>, id |-> nonce]}
    /\ files' = (files \ {fl}) \cup {[fl EXCEPT !.end = fl.end + 1]}
    /\ nonce' = nonce + 1
    /\ UNCHANGED <<master, dataKeys, clock, open, readable>>

\* re-open of a log after a restart: valueLog.open truncates to the valid end and starts a
\* NEW file; the defect switch models appending into the old file from an earlier offset
ReopenLogBelowEnd(fl) ==
    /\ ReuseOffsets
    /\ open # NoKey
    /\ fl \in files /\ fl.kind = "log" /\ fl.end > 0
    /\ files' = (files \ {fl}) \cup {[fl EXCEPT !.end = fl.end - 1]}
    /\ UNCHANGED <<master, dataKeys, units, nonce, clock, open, readable>>

\* a new table with one block and an index: fresh IV each
NewTable(f) ==
    /\ open # NoKey
    /\ f \notin {x.f : x \in files} /\ Cardinality(files) < MaxFiles
    /\ Cardinality(KeysAfter) <= MaxDataKeys
    /\ dataKeys' = KeysAfter
    /\ files' = files \cup {[f |-> f, kind |-> "table", key |-> KeyForNewFile, base |-> 0, end |-> 0]}
    /\ units' = units \cup {[f |-> f, key |-> KeyForNewFile, iv |-> <<nonce, 0>>, id |-> nonce],
                            [f |-> f, key |-> KeyForNewFile, iv |-> <<nonce + 1, 0>>, id |-> nonce + 1]}
    /\ nonce' = nonce + 2
    /\ UNCHANGED <<master, clock, open, readable>>

\* compaction / GC remove files; their units disappear with them
Remove(fl) ==
    /\ open # NoKey
    /\ fl \in files
    /\ files' = files \ {fl}
    /\ units' = {u \in units : u.f # fl.f}
    /\ UNCHANGED <<master, dataKeys, nonce, clock, open, readable>>

\* `badger rotate`: DB closed; the registry is rewritten under the new master key, data
\* keys and files are untouched
RotateMaster(m) ==
    /\ open = NoKey
    /\ m \in MasterKeys /\ m # master
    /\ master' = m
    /\ UNCHANGED <<dataKeys, files, units, nonce, clock, open, readable>>

Next ==
    \/ \E m \in MasterKeys : Open(m) \/ OpenWrong(m) \/ RotateMaster(m)
    \/ Close \/ Tick
    \/ \E f \in 1..MaxFiles : NewLog(f) \/ NewTable(f)
    \/ \E fl \in files : AppendRec(fl) \/ Remove(fl) \/ ReopenLogBelowEnd(fl)

Spec == Init /\ [][Next]_vars

TypeOK ==
    /\ master \in MasterKeys
    /\ open \in MasterKeys \cup {NoKey}
    /\ \A fl \in files : fl.key \in 1..MaxDataKeys

\* C23: no two encrypted units share (data key, IV)
IVUnique == \A u, v \in units : (u.key = v.key /\ u.iv = v.iv) => u = v

\* C23: every file names a data key the registry has (data under earlier data keys and
\* before a master-key rotation stays readable)
OldKeysStayReadable == \A fl \in files : fl.key \in {d.id : d \in dataKeys}

\* C23: the DB is only ever open with the master key the registry is encrypted with, and a
\* failed open changes nothing
WrongKeyRejected == open # NoKey => open = master
WrongKeyChangesNothing == [][(open = NoKey /\ open' = NoKey /\ master' = master) =>
                               (files' = files /\ units' = units /\ dataKeys' = dataKeys)]_vars

\* data keys are never removed or changed, ids increase with creation time
DataKeysGrow == [][dataKeys \subseteq dataKeys']_vars
RotationHonoured == \A a, b \in dataKeys : a.id < b.id => b.created - a.created >= Rotation
=============================================================================
