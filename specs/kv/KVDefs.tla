------------------------------- MODULE KVDefs -------------------------------
(***************************************************************************)
(* Pure definitions of the badger key-value contract, shared by BadgerKV   *)
(* (the contract state machine), BadgerKVGen (history generator) and       *)
(* KVIterGen (store x pending-writes x iterator-options generator).        *)
(*                                                                         *)
(*   Entry      [k, ts, val, del, um, exp, disc]                           *)
(*   ReadAt     what Txn.Get returns at a read timestamp      (txn.go:446) *)
(*   Overlay    pending writes layered over the snapshot      (txn.go:260, *)
(*              iterator.go:477: the pendingWritesIterator is first in     *)
(*              merge order and yields its entries at version readTs)      *)
(*   IterSeq    the exact sequence an Iterator yields   (iterator.go:520-  *)
(*              790: Seek/Rewind/Next/Valid/ValidForPrefix/parseItem)      *)
(*                                                                         *)
(* Keys are naturals; key order = numeric order = byte order of the        *)
(* concretisation table.  Pre is the "is a byte-prefix of" relation of the *)
(* concretised keys (reflexive), Internal the keys carrying the reserved   *)
(* !badger! prefix.                                                        *)
(***************************************************************************)
EXTENDS Integers, Sequences, FiniteSets, TLC

CONSTANTS Keys,       \* finite set of naturals >= 1
          Pre,        \* set of pairs <<p, k>>: key p is a byte prefix of key k
          Internal    \* subset of Keys: keys with the !badger! prefix

None == [k |-> 0, ts |-> 0, val |-> 0, del |-> FALSE, um |-> 0, exp |-> 0, disc |-> FALSE]
Absent == [found |-> FALSE, val |-> 0, ts |-> 0, um |-> 0, exp |-> 0, disc |-> FALSE]

Max(S) == CHOOSE x \in S : \A y \in S : y <= x
Min(S) == CHOOSE x \in S : \A y \in S : x <= y

\* iterator.go:590 isDeletedOrExpired
Dead(e, t) == e.del \/ (e.exp # 0 /\ e.exp <= t)

\* newest entry of k at or below ts (if any)
Cands(S, k, ts) == {e \in S : e.k = k /\ e.ts <= ts}
Top(S, k, ts) == CHOOSE e \in Cands(S, k, ts) : \A f \in Cands(S, k, ts) : f.ts <= e.ts
Obs(e) == [found |-> TRUE, val |-> e.val, ts |-> e.ts, um |-> e.um, exp |-> e.exp, disc |-> e.disc]
ReadAt(S, k, ts, t) ==
    IF Cands(S, k, ts) = {} THEN Absent
    ELSE LET e == Top(S, k, ts) IN IF Dead(e, t) THEN Absent ELSE Obs(e)

-----------------------------------------------------------------------------
(* PendingOverlay: the pending writes of a read-write transaction appear at *)
(* version readTs and shadow a committed entry with the same key and        *)
(* version (the merge iterator keeps the left-most of equal internal keys). *)
PendingAt(W, hw, rts) == {[W[k] EXCEPT !.ts = rts] : k \in hw}
Overlay(S, P) == {e \in S : ~\E p \in P : p.k = e.k /\ p.ts = e.ts} \cup P

-----------------------------------------------------------------------------
(* Iterator options.                                                       *)
(*   rev      IteratorOptions.Reverse                                      *)
(*   all      AllVersions                                                  *)
(*   since    SinceTs (0 = off)                                            *)
(*   pmode    "none"; "opt" = IteratorOptions.Prefix = pfx;                *)
(*            "valid" = loop condition ValidForPrefix(pfx) without         *)
(*            opt.Prefix; "key" = NewKeyIterator(pfx)                      *)
(*   seek     0 = Rewind(), otherwise Seek(seek)                           *)
(*   internal InternalAccess                                               *)
NoOpts == [rev |-> FALSE, all |-> FALSE, since |-> 0, pfx |-> 0, pmode |-> "none", seek |-> 0,
           internal |-> FALSE]

HasPfx(o, k) == CASE o.pmode = "none" -> TRUE
                  [] o.pmode = "key"  -> k = o.pfx
                  [] OTHER            -> <<o.pfx, k>> \in Pre

\* Rewind() is Seek(opt.Prefix) (iterator.go Seek: "if len(key) == 0 { key = it.opt.Prefix }")
EffSeek(o) == IF o.seek # 0 THEN o.seek ELSE IF o.pmode \in {"opt", "key"} THEN o.pfx ELSE 0

\* a seek key must lie inside opt.Prefix (pickTables drops the tables outside the prefix,
\* so other seeks have placement-dependent results: not part of the contract)
WellFormed(o) ==
    /\ (o.pmode = "none") = (o.pfx = 0)
    /\ o.pmode = "opt" => (o.seek = 0 \/ <<o.pfx, o.seek>> \in Pre)
    /\ o.pmode = "key" => (o.all /\ (o.seek = 0 \/ o.seek = o.pfx))

\* versions the iterator looks at (parseItem: version > readTs, version <= SinceTs and
\* internal keys without InternalAccess are skipped before anything else)
InRange(e, o, rts) == e.ts <= rts /\ (o.since = 0 \/ e.ts > o.since) /\ (e.k \in Internal => o.internal)

AfterSeek(e, o) == LET s == EffSeek(o) IN s = 0 \/ (IF o.rev THEN e.k <= s ELSE e.k >= s)

\* AllVersions: every version in range, delete markers and expired entries included;
\* otherwise the newest in-range version of each key unless it is deleted or expired
Visible(S, o, rts, now) ==
    LET R == {e \in S : InRange(e, o, rts)}
    IN IF o.all THEN R
       ELSE {e \in R : (\A f \in R : f.k = e.k => f.ts <= e.ts) /\ ~Dead(e, now)}

\* internal key order: key ascending, version descending; a reverse iterator walks the
\* same order backwards (so AllVersions yields the versions of a key oldest first)
Lt(e, f, rev) == IF rev THEN (e.k > f.k \/ (e.k = f.k /\ e.ts < f.ts))
                 ELSE (e.k < f.k \/ (e.k = f.k /\ e.ts > f.ts))

RECURSIVE SortEntries(_, _)
SortEntries(T, rev) ==
    IF T = {} THEN <<>>
    ELSE LET m == CHOOSE e \in T : \A f \in T : f = e \/ Lt(e, f, rev)
         IN <<m>> \o SortEntries(T \ {m}, rev)

\* the loop "for it.Seek(..); it.Valid() [/ValidForPrefix]; it.Next()" stops at the first
\* item outside the prefix
RECURSIVE TakeWhile(_, _)
TakeWhile(s, o) == IF s = <<>> \/ ~HasPfx(o, Head(s).k) THEN <<>>
                   ELSE <<Head(s)>> \o TakeWhile(Tail(s), o)

IterSeq(S, o, rts, now) ==
    TakeWhile(SortEntries({e \in Visible(S, o, rts, now) : AfterSeek(e, o)}, o.rev), o)

\* what the caller observes for one yielded item
ItemObs(e, now) == [found |-> TRUE, val |-> e.val, ts |-> e.ts, um |-> e.um, exp |-> e.exp,
                    disc |-> e.disc, del |-> e.del, dead |-> Dead(e, now)]
IterObs(S, o, rts, now) ==
    LET s == IterSeq(S, o, rts, now) IN [i \in 1..Len(s) |-> [k |-> s[i].k, res |-> ItemObs(s[i], now)]]

-----------------------------------------------------------------------------
(* Theorems about IterSeq (checked by TLC as invariants over generated     *)
(* stores in KVIterGen: IterSeqProps).                                     *)
SeqKeys(s) == [i \in 1..Len(s) |-> s[i].k]
StrictlyOrdered(s, rev) == \A i \in 1..(Len(s) - 1) : Lt(s[i], s[i + 1], rev)
\* exactly once, in order, nothing invisible, seek landing, prefix boundary
IterSeqProps(S, o, rts, now) ==
    LET s == IterSeq(S, o, rts, now)
        V == {e \in Visible(S, o, rts, now) : AfterSeek(e, o)}
    IN /\ StrictlyOrdered(s, o.rev)
       /\ \A i \in 1..Len(s) : s[i] \in V /\ HasPfx(o, s[i].k)
       /\ (~o.all => \A i, j \in 1..Len(s) : i # j => s[i].k # s[j].k)
       \* nothing between the seek position and the end of the prefix run is skipped
       /\ \A e \in V : (\A f \in V : (f = e \/ Lt(f, e, o.rev)) => HasPfx(o, f.k))
                        => \E i \in 1..Len(s) : s[i] = e
       \* without AllVersions the yielded item of a key is what Get returns
       /\ (~o.all /\ o.since = 0) =>
             \A i \in 1..Len(s) : ReadAt(S, s[i].k, rts, now) = Obs(s[i])
=============================================================================
