--------------------------- MODULE ThresholdTrace ---------------------------
(***************************************************************************)
(* Trace validation of the value-log decisions of real runs against        *)
(* Threshold (C06).  The trace (trace.ndjson, written by kvreplay -trace)  *)
(* is a concatenation of segments, one per replayed case:                  *)
(*   reset   thr = threshold at Open, thrs = every value the threshold     *)
(*           takes in this segment (the update events are asynchronous:    *)
(*           the listener goroutine may log an update after an entry has   *)
(*           already cached the new value)                                 *)
(*   update  hook threshold.update (or a re-open): Threshold!Update        *)
(*   decide  hook vlog.decide (optional, fixes/hook_kv.diff): the decision *)
(*           taken in valueLog.write: Threshold!VlogWrite                  *)
(*   put     hook mem.put: entry k@ts went through writeToLSM with cached  *)
(*           threshold and value length vlen: Threshold!LsmWrite           *)
(*   stored  harness observation of the LSM entry after the commit: value  *)
(*           pointer or inline                                             *)
(* A put is accepted iff its cached threshold is a value the threshold had *)
(* in this segment (the unobserved Estimate / VlogWrite step that cached   *)
(* it is inferred) and a preceding decide for the same entry used the same *)
(* cached threshold (CacheStable) and took the same decision               *)
(* (DecisionConsistent); a stored line is accepted iff the stored form is  *)
(* the decision LsmWrite takes with those inputs (DecisionByCache).        *)
(***************************************************************************)
EXTENDS Integers, Sequences, FiniteSets, Json, TLC

Trace == ndJsonDeserialize("trace.ndjson")

VARIABLES l,       \* next trace line
          thr,     \* current dynamic threshold
          allowed, \* thresholds of the current segment
          puts,    \* set of [k, ts, ptr]: LsmWrite decisions of the current segment
          decs     \* set of [k, ts, skip, threshold]: VlogWrite decisions of the current segment

tvars == <<l, thr, allowed, puts, decs>>

\* Threshold!LsmWrite / VlogWrite: pointer (value log) iff not (size < cached threshold)
PtrDecision(sz, c) == ~(sz < c)

Ev == Trace[l]
Is(name) == l <= Len(Trace) /\ Ev.ev = name

TraceInit ==
    /\ TLCSet(1, 0)
    /\ l = 1
    /\ thr = 0
    /\ allowed = {}
    /\ puts = {}
    /\ decs = {}

TReset ==
    /\ Is("reset")
    /\ thr' = Ev.thr
    /\ allowed' = {Ev.thrs[i] : i \in 1..Len(Ev.thrs)} \cup {Ev.thr}
    /\ puts' = {}
    /\ decs' = {}
    /\ l' = l + 1

TUpdate ==
    /\ Is("update")
    /\ Ev.value \in allowed
    /\ thr' = Ev.value
    /\ l' = l + 1
    /\ UNCHANGED <<allowed, puts, decs>>

\* the same entry k@ts can pass the write path again (value-log GC write-back creates a fresh
\* Entry): a decide replaces an older one of the same entry, and the put that follows consumes it
Same(d) == d.k = Ev.k /\ d.ts = Ev.ts

TDecide ==
    /\ Is("decide")
    /\ Ev.threshold \in allowed
    /\ Ev.skip = ~PtrDecision(Ev.vlen, Ev.threshold)
    /\ decs' = {d \in decs : ~Same(d)} \cup {[k |-> Ev.k, ts |-> Ev.ts, skip |-> Ev.skip, threshold |-> Ev.threshold]}
    /\ l' = l + 1
    /\ UNCHANGED <<thr, allowed, puts>>

TPut ==
    /\ Is("put")
    /\ Ev.threshold \in allowed
    \* CacheStable + DecisionConsistent against the value-log side, when it was logged
    /\ \A d \in decs : Same(d) =>
           (d.threshold = Ev.threshold /\ d.skip = ~PtrDecision(Ev.vlen, Ev.threshold))
    /\ decs' = {d \in decs : ~Same(d)}
    /\ puts' = {p \in puts : ~(p.k = Ev.k /\ p.ts = Ev.ts)}
                 \cup {[k |-> Ev.k, ts |-> Ev.ts, ptr |-> PtrDecision(Ev.vlen, Ev.threshold)]}
    /\ l' = l + 1
    /\ UNCHANGED <<thr, allowed>>

TStored ==
    /\ Is("stored")
    /\ \A p \in puts : (p.k = Ev.k /\ p.ts = Ev.ts) => p.ptr = Ev.ptr
    /\ l' = l + 1
    /\ UNCHANGED <<thr, allowed, puts, decs>>

TraceNext == TReset \/ TUpdate \/ TDecide \/ TPut \/ TStored
TraceSpec == TraceInit /\ [][TraceNext]_tvars

\* high-water mark of consumed lines; the whole trace must be consumed
HighWater == (IF l - 1 > TLCGet(1) THEN TLCSet(1, l - 1) ELSE TRUE)
Accepted == IF TLCGet(1) = Len(Trace) THEN TRUE
            ELSE PrintT(<<"REJECTED_AT", TLCGet(1) + 1, Trace[TLCGet(1) + 1]>>) /\ FALSE
=============================================================================
