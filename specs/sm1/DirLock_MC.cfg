SPECIFICATION Spec
CONSTANTS
  Openers = {1, 2, 3}
  Dirs = {1, 2}
  Configs = {11, 12, 22}
  BypassRO = TRUE
INVARIANTS Exclusion LocksMatchInstances OpenOutcome
