----------------------------- MODULE SequenceGen -----------------------------
(***************************************************************************)
(* Case generator for C30: behaviours of Sequence (intended protocol,      *)
(* AssignEarly = FALSE) with the result every call must return.  A call    *)
(* that runs a transaction appears as two steps (...Begin: the call is      *)
(* started and runs up to its commit; ...Commit: the commit is let through) *)
(* so that the replayer can interleave the transactions of different       *)
(* Sequence objects exactly as the behaviour says.                          *)
(***************************************************************************)
EXTENDS Sequence, Sequences, Json

CONSTANTS HistLen, MinConflicts, MinQueued

VARIABLE hist
gvars == <<vars, hist>>

H(op, o, res, v) == hist' = Append(hist, [op |-> op, o |-> o, res |-> res, v |-> v])
\* a waiting call runs as soon as the call in flight has returned: nothing else is generated in between
ResumePending == \E o \in Objs : obj[o].live /\ obj[o].wait /\ obj[o].txn.kind = "none"
Room == Len(hist) < HistLen /\ ~ResumePending

GGetBegin(o) == Room /\ GetBegin(o) /\ H("getBegin", o, "parked", 0)
GGetCommit(o) == Room /\ GetCommit(o) /\ H("getCommit", o, IF Conflict(o) THEN "conflict" ELSE "ok", 0)
GNextFast(o) == Room /\ NextFast(o) /\ H("next", o, "value", obj[o].next)
GNextBegin(o) == Room /\ NextBegin(o) /\ H("nextBegin", o, "parked", 0)
GNextCommit(o) == Room /\ NextCommit(o) /\ H("nextCommit", o, IF Conflict(o) THEN "conflict" ELSE "value", obj[o].txn.val)
GReleaseBegin(o) == Room /\ ReleaseBegin(o) /\ H("releaseBegin", o, IF ReleaseWrites(o) THEN "parked" ELSE "ok", 0)
GReleaseCommit(o) == Room /\ ReleaseCommit(o) /\ H("releaseCommit", o, IF Conflict(o) THEN "conflict" ELSE "ok", 0)
GRestart == Room /\ Restart /\ H("restart", 0, "ok", 0)
GNextQueued(o) == Room /\ NextQueued(o) /\ H("nextQueued", o, "blocked", 0)
GResume(o) == Len(hist) < HistLen /\ Resume(o)
              /\ H("resume", o, IF obj[o].next < obj[o].leased THEN "value" ELSE "parked", obj[o].next)

GenNext ==
    \/ \E o \in Objs : GGetBegin(o) \/ GGetCommit(o) \/ GNextFast(o) \/ GNextBegin(o) \/ GNextCommit(o)
                        \/ GReleaseBegin(o) \/ GReleaseCommit(o) \/ GNextQueued(o) \/ GResume(o)
    \/ GRestart

GenInit == Init /\ hist = <<>>
GenSpec == GenInit /\ [][GenNext]_gvars

NConf == Cardinality({i \in 1..Len(hist) : hist[i].res = "conflict"})
NQueued == Cardinality({i \in 1..Len(hist) : hist[i].op = "nextQueued"})
Emit == (Len(hist) = HistLen /\ NConf >= MinConflicts /\ NQueued >= MinQueued) => PrintT(<<"CASE", ToJson(hist)>>)
=============================================================================
