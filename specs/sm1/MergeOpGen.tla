----------------------------- MODULE MergeOpGen -----------------------------
(***************************************************************************)
(* Case generator for C31: behaviours of MergeOp; every step records the   *)
(* value MergeOperator.Get must return right after it (<<>> = key not      *)
(* found).  Compact uses the largest discard timestamp (the observable     *)
(* prediction does not depend on it - GetIsFold is checked for all).       *)
(***************************************************************************)
EXTENDS MergeOp, Json

CONSTANTS HistLen, MaxReopen

VARIABLE hist
gvars == <<vars, hist>>

Room == Len(hist) < HistLen
NOps(o) == Cardinality({i \in 1..Len(hist) : hist[i].op = o})
LastOp == IF hist = <<>> THEN "" ELSE hist[Len(hist)].op
H(op, x, w) == hist' = Append(hist, [op |-> op, x |-> x, writes |-> w, get |-> FoldVal(Taken(Desc(ViewOf(<<mem'>> \o l0' \o <<low'>>))))])

GAdd(x) == Room /\ Add(x) /\ H("add", x, TRUE)
\* a Merge that has nothing to merge is generated only directly after another Merge
GMerge == Room /\ (MergeWrites \/ LastOp = "merge") /\ LastOp # "reopen" /\ Merge /\ H("merge", 0, MergeWrites)
GFlush == Room /\ Flush /\ H("flush", 0, TRUE)
GCompact == Room /\ Compact(nextTs - 1) /\ H("compact", 0, TRUE)
GReopen == Room /\ NOps("reopen") < MaxReopen /\ LastOp # "reopen" /\ Reopen /\ H("reopen", 0, MergeWrites)

GenNext ==
    \/ \E x \in 1..MaxAdds : GAdd(x)
    \/ GMerge \/ GFlush \/ GCompact \/ GReopen

GenInit == Init /\ hist = <<>>
GenSpec == GenInit /\ [][GenNext]_gvars

Emit == Len(hist) = HistLen => PrintT(<<"CASE", ToJson(hist)>>)
=============================================================================
