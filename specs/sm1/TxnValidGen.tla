---------------------------- MODULE TxnValidGen ----------------------------
(***************************************************************************)
(* Case generator for the validation part of C28 (TxnSize!Validate,        *)
(* Readable).  A case: optionally ban namespace 1, a few writes/deletes of *)
(* key and value classes in one transaction (each with the error class the *)
(* specification demands; a refused write leaves the transaction as it     *)
(* was), Commit, optionally ban namespace 1 now, then read every key class *)
(* (Get and one iteration) and compare with the predicted contents.        *)
(***************************************************************************)
EXTENDS Integers, Sequences, FiniteSets, TLC, Json

CONSTANTS NsOffset,     \* Options.NamespaceOffset (1000 stands for -1 = off; cfg files have no negative numbers)
          InMemory,     \* Options.InMemory
          Thr,          \* value threshold
          VlogFileSize, \* Options.ValueLogFileSize
          KeyClasses, ValClasses,
          MaxWrites

\* the size limits are not explored here (small transactions): any values do
S == INSTANCE TxnSize WITH MaxSize <- 0, MaxCount <- 0, Threshold <- Thr, InMem <- InMemory, Reserve <- 0, KLens <- {}, FixedV <- {},
                           Dists <- {}, Digits <- {}, MaxAdds <- 0,
                           size <- 0, count <- 0, ents <- <<>>, nadds <- 0, st <- "open"

NsOn == NsOffset < 1000
Off == IF NsOn THEN NsOffset ELSE 0
\* the abstract key of a class: length, reserved prefix, namespace id in its bytes (0 = none)
KeyOf(c) ==
    CASE c = "empty"         -> [len |-> 0, reserved |-> FALSE, ns |-> 0]
      [] c = "reserved"      -> [len |-> 11, reserved |-> TRUE, ns |-> 0]
      [] c = "reservedExact" -> [len |-> 8, reserved |-> TRUE, ns |-> 0]
      [] c = "nearReserved"  -> [len |-> 20, reserved |-> FALSE, ns |-> IF NsOn THEN 3 ELSE 0]
      [] c = "max"           -> [len |-> 65000, reserved |-> FALSE, ns |-> IF NsOn THEN 2 ELSE 0]
      [] c = "over"          -> [len |-> 65001, reserved |-> FALSE, ns |-> IF NsOn THEN 2 ELSE 0]
      [] c = "plain"         -> [len |-> Off + 12, reserved |-> FALSE, ns |-> IF NsOn THEN 2 ELSE 0]
      [] c = "short"         -> [len |-> Off + 7, reserved |-> FALSE, ns |-> 0]
      [] c = "bannedLong"    -> [len |-> Off + 12, reserved |-> FALSE, ns |-> IF NsOn THEN 1 ELSE 0]
      [] c = "bannedExact"   -> [len |-> Off + 8, reserved |-> FALSE, ns |-> IF NsOn THEN 1 ELSE 0]

VLenOf(c) ==
    CASE c = "none" -> 0
      [] c = "small" -> 5
      [] c = "thr" -> Thr
      [] c = "thrOver" -> Thr + 1
      [] c = "vlfs" -> VlogFileSize
      [] c = "vlfsOver" -> VlogFileSize + 1

VARIABLES phase,    \* 0 start, 1 writing, 2 committed, 3 read
          banned,   \* set of banned namespace ids
          pend,     \* key class -> value id written in the open transaction (0 none, -1 delete)
          nw, nval, hist

vars == <<phase, banned, pend, nw, nval, hist>>

Init ==
    /\ phase = 0 /\ banned = {} /\ pend = [c \in KeyClasses |-> 0] /\ nw = 0 /\ nval = 1 /\ hist = <<>>

Ban ==
    /\ NsOn /\ phase \in {0, 2} /\ 1 \notin banned
    /\ banned' = banned \cup {1}
    /\ hist' = Append(hist, [op |-> "ban", ns |-> 1])
    /\ phase' = IF phase = 0 THEN 1 ELSE phase
    /\ UNCHANGED <<pend, nw, nval>>

Write(kc, vc) ==
    /\ phase \in {0, 1} /\ nw < MaxWrites
    /\ LET r == S!Validate(KeyOf(kc), VLenOf(vc), VlogFileSize, InMemory, Thr, banned) IN
       /\ hist' = Append(hist, [op |-> "set", kc |-> kc, vc |-> vc, klen |-> KeyOf(kc).len, vlen |-> VLenOf(vc),
                                val |-> nval, res |-> r])
       /\ pend' = IF r = "ok" THEN [pend EXCEPT ![kc] = nval] ELSE pend
    /\ nval' = nval + 1 /\ nw' = nw + 1 /\ phase' = 1
    /\ UNCHANGED banned

Del(kc) ==
    /\ phase \in {0, 1} /\ nw < MaxWrites
    /\ LET r == S!Validate(KeyOf(kc), 0, VlogFileSize, InMemory, Thr, banned) IN
       /\ hist' = Append(hist, [op |-> "del", kc |-> kc, vc |-> "none", klen |-> KeyOf(kc).len, vlen |-> 0,
                                val |-> 0, res |-> r])
       /\ pend' = IF r = "ok" THEN [pend EXCEPT ![kc] = -1] ELSE pend
    /\ nw' = nw + 1 /\ phase' = 1
    /\ UNCHANGED <<banned, nval>>

Commit ==
    /\ phase = 1 /\ nw > 0
    /\ phase' = 2
    /\ hist' = Append(hist, [op |-> "commit", res |-> "ok"])
    /\ UNCHANGED <<banned, pend, nw, nval>>

\* what a reader sees for a key class after the commit
ReadOf(kc) ==
    LET r == S!Readable(KeyOf(kc), banned) IN
    IF r # "ok" THEN [res |-> r, val |-> 0]
    ELSE IF pend[kc] > 0 THEN [res |-> "found", val |-> pend[kc]]
    ELSE [res |-> "notfound", val |-> 0]

Visible == {kc \in KeyClasses : ReadOf(kc).res = "found"}

ReadAll ==
    /\ phase = 2
    /\ phase' = 3
    /\ hist' = Append(hist, [op |-> "readall",
                             gets |-> [kc \in KeyClasses |-> ReadOf(kc)],
                             iter |-> {[kc |-> kc, val |-> pend[kc]] : kc \in Visible}])
    /\ UNCHANGED <<banned, pend, nw, nval>>

Next ==
    \/ Ban
    \/ \E kc \in KeyClasses, vc \in ValClasses : Write(kc, vc)
    \/ \E kc \in KeyClasses : Del(kc)
    \/ Commit
    \/ ReadAll

GenSpec == Init /\ [][Next]_vars

Emit == phase = 3 => PrintT(<<"CASE", ToJson(hist)>>)

\* design-level sanity: whatever is refused never becomes visible
RefusedInvisible ==
    \A i \in 1..Len(hist) : (hist[i].op = "set" /\ hist[i].res # "ok") =>
        \A j \in 1..Len(hist) : hist[j].op = "readall" =>
            ~(hist[j].gets[hist[i].kc].res = "found" /\ hist[j].gets[hist[i].kc].val = hist[i].val)
=============================================================================
