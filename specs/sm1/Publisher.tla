------------------------------ MODULE Publisher ------------------------------
(***************************************************************************)
(* C32 - subscribers get every matching committed write exactly once, in   *)
(* commit order, and nothing for user keys that match none of their        *)
(* patterns.                                                               *)
(*                                                                         *)
(* A pattern (pb.Match) is a prefix with ignored byte positions; it        *)
(* matches a USER key that is at least as long as the prefix and agrees    *)
(* with it on every position that is not ignored (Match).  The mechanism   *)
(* of publisher.go / trie/trie.go is modelled next to it: the trie maps a   *)
(* path (bytes and the wildcard "*" for ignored positions) to subscriber    *)
(* ids (AddMatch), Get(key) collects the ids of every node on every path    *)
(* that matches a prefix of the key, DeleteMatch removes an id from its     *)
(* node.  publishUpdates looks every entry of a committed request up and    *)
(* appends it to the batch of each subscriber found (once per subscriber,   *)
(* ids are a set), requests are published in application (= commit) order.  *)
(*                                                                         *)
(* LookupKey says which key the lookup uses: "user" is the intended one;    *)
(* "internal" models the tree before fix d7b7206, which passed the internal  *)
(* key (user key + 8 byte big-endian inverted version, i.e. 0xff bytes for  *)
(* small versions) to the trie, so that a prefix longer than the user key   *)
(* can match the version suffix.                                            *)
(***************************************************************************)
EXTENDS Integers, Sequences, FiniteSets, TLC

CONSTANTS Bytes,       \* byte values (naturals); 255 stands for 0xff
          MaxKeyLen,   \* user keys have 1..MaxKeyLen bytes
          MaxP,        \* prefixes have 0..MaxP bytes
          Subs,        \* subscriber ids
          MaxPats,     \* patterns per subscription
          MaxCommits, MaxWrites,
          LookupKey    \* "user" | "internal"

Star == 999     \* the wildcard element of a trie path
SeqsUpTo(S, lo, hi) == UNION {[1..n -> S] : n \in lo..hi}
AllKeys == SeqsUpTo(Bytes, 1, MaxKeyLen)
AllPats == {[prefix |-> p, ig |-> g] : p \in SeqsUpTo(Bytes, 0, MaxP), g \in SUBSET (0..(MaxP - 1))}
\* subscriptions with 1..MaxPats (at most 2) patterns, commits with 1..MaxWrites (at most 2) keys
PatSets == {{p} : p \in AllPats} \cup (IF MaxPats >= 2 THEN {{p, q} : p \in AllPats, q \in AllPats} ELSE {})
KeySets == {{k} : k \in AllKeys} \cup (IF MaxWrites >= 2 THEN {{k, j} : k \in AllKeys, j \in AllKeys} ELSE {})

\* the contract: does pattern pat match user key k?
Match(k, pat) ==
    /\ Len(k) >= Len(pat.prefix)
    /\ \A i \in 1..Len(pat.prefix) : (i - 1) \in pat.ig \/ k[i] = pat.prefix[i]

VARIABLES trie,       \* path -> set of subscriber ids (absent paths: not in DOMAIN)
          pats,       \* subscriber -> set of patterns ({} = not subscribed)
          state,      \* subscriber -> "new" | "active" | "gone"
          nextTs,
          ncommits,
          delivered,  \* subscriber -> sequence of [ver, kvs] the mechanism delivered
          expected    \* ghost: what the contract demands

vars == <<trie, pats, state, nextTs, ncommits, delivered, expected>>

PathOf(pat) == [i \in 1..Len(pat.prefix) |-> IF (i - 1) \in pat.ig THEN Star ELSE pat.prefix[i]]

\* Trie.AddMatch for every pattern of s
AddAll(t, ps, s) ==
    LET paths == {PathOf(p) : p \in ps} IN
    [q \in DOMAIN t \cup paths |-> (IF q \in DOMAIN t THEN t[q] ELSE {}) \cup (IF q \in paths THEN {s} ELSE {})]

\* Trie.DeleteMatch for every pattern of s, then removeEmpty
DelAll(t, ps, s) ==
    LET paths == {PathOf(p) : p \in ps}
        t2 == [q \in DOMAIN t |-> IF q \in paths THEN t[q] \ {s} ELSE t[q]]
    IN [q \in {x \in DOMAIN t2 : t2[x] # {}} |-> t2[q]]

\* Trie.Get: ids of all nodes on all paths that match a prefix of key
PathMatches(q, key) == Len(q) <= Len(key) /\ \A i \in 1..Len(q) : q[i] = Star \/ q[i] = key[i]
TrieGet(t, key) == UNION {t[q] : q \in {x \in DOMAIN t : PathMatches(x, key)}}

\* the key publishUpdates hands to the trie
Suffix == <<255, 255, 255, 255, 255, 255, 255>>      \* first 7 bytes of the inverted version (small versions)
LookupOf(k) == IF LookupKey = "internal" THEN k \o Suffix ELSE k

Init ==
    /\ trie = <<>> /\ pats = [s \in Subs |-> {}] /\ state = [s \in Subs |-> "new"]
    /\ nextTs = 1 /\ ncommits = 0
    /\ delivered = [s \in Subs |-> <<>>] /\ expected = [s \in Subs |-> <<>>]

\* DB.Subscribe -> publisher.newSubscriber
Subscribe(s, ps) ==
    /\ state[s] = "new"
    /\ \A u \in Subs : u < s => state[u] # "new"
    /\ pats' = [pats EXCEPT ![s] = ps]
    /\ state' = [state EXCEPT ![s] = "active"]
    /\ trie' = AddAll(trie, ps, s)
    /\ UNCHANGED <<nextTs, ncommits, delivered, expected>>

\* context cancelled -> publisher.deleteSubscriber
Unsubscribe(s) ==
    /\ state[s] = "active"
    /\ state' = [state EXCEPT ![s] = "gone"]
    /\ trie' = DelAll(trie, pats[s], s)
    /\ UNCHANGED <<pats, nextTs, ncommits, delivered, expected>>

Active == {s \in Subs : state[s] = "active"}

\* a committed transaction writing the user keys ks at version nextTs
Commit(ks) ==
    /\ ncommits < MaxCommits
    /\ LET got(s) == {k \in ks : s \in TrieGet(trie, LookupOf(k))}
           want(s) == {k \in ks : \E p \in pats[s] : Match(k, p)}
       IN /\ delivered' = [s \in Subs |-> IF s \in Active /\ got(s) # {}
                                          THEN Append(delivered[s], [ver |-> nextTs, keys |-> got(s)]) ELSE delivered[s]]
          /\ expected' = [s \in Subs |-> IF s \in Active /\ want(s) # {}
                                         THEN Append(expected[s], [ver |-> nextTs, keys |-> want(s)]) ELSE expected[s]]
    /\ nextTs' = nextTs + 1 /\ ncommits' = ncommits + 1
    /\ UNCHANGED <<trie, pats, state>>

Next ==
    \/ \E s \in Subs, ps \in PatSets : Subscribe(s, ps)
    \/ \E s \in Subs : Unsubscribe(s)
    \/ \E ks \in KeySets : Commit(ks)

Spec == Init /\ [][Next]_vars

-----------------------------------------------------------------------------
\* the index answers exactly the contract's question, for every user key
TrieMatchesContract ==
    \A k \in AllKeys : TrieGet(trie, LookupOf(k)) = {s \in Active : \E p \in pats[s] : Match(k, p)}

\* C32: every matching write exactly once, in commit order
ExactlyOnceInOrder == \A s \in Subs : \A i \in 1..Len(expected[s]) :
    /\ i <= Len(delivered[s])
    /\ delivered[s][i].ver = expected[s][i].ver
    /\ expected[s][i].keys \subseteq delivered[s][i].keys
\* C32: nothing for user keys that match none of the patterns
NoSpuriousDelivery == \A s \in Subs :
    /\ Len(delivered[s]) <= Len(expected[s])
    /\ \A i \in 1..Len(delivered[s]) : i <= Len(expected[s]) => delivered[s][i].keys \subseteq expected[s][i].keys
\* no id is left in the index once its subscription is gone
NoStaleIds == \A q \in DOMAIN trie : trie[q] \subseteq Active /\ trie[q] # {}
=============================================================================
