SPECIFICATION Spec
CONSTANTS
  MaxSize = 600
  MaxCount = 6
  Threshold = 600
  InMem = FALSE
  Reserve = 41
  KLens = {1, 12}
  FixedV = {0, 7, 600}
  Dists = {0, 1, 2, 3, 4, 21, 41}
  Digits = {1, 2, 3, 10, 20}
  MaxAdds = 5
INVARIANTS TypeOK AcceptedFits BudgetCovers
