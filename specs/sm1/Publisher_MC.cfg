SPECIFICATION Spec
CONSTANTS
  Bytes = {1, 255}
  MaxKeyLen = 2
  MaxP = 2
  Subs = {1, 2}
  MaxPats = 1
  MaxCommits = 1
  MaxWrites = 2
  LookupKey = "user"
INVARIANTS TrieMatchesContract ExactlyOnceInOrder NoSpuriousDelivery NoStaleIds
