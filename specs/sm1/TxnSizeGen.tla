----------------------------- MODULE TxnSizeGen -----------------------------
(***************************************************************************)
(* Case generator for the size accounting part of C28.  A case is a        *)
(* sequence of writes (key length, value length) with, for each, the       *)
(* answer checkSize must give (ok / ErrTxnTooBig) and the budget           *)
(* (Txn.size, Txn.count) afterwards, followed by a Commit at a timestamp   *)
(* with d decimal digits, which the property says must succeed.  The       *)
(* constants MaxSize, MaxCount, Threshold and Reserve are the values        *)
(* measured on the opened DB (the replayer's -probe mode).  `tight` marks   *)
(* the cases in which the real request would not fit (sendToWriteCh).      *)
(***************************************************************************)
EXTENDS TxnSize, Json

VARIABLE hist
gvars == <<vars, hist>>

GAdd(k, v) ==
    /\ Add(k, v)
    /\ hist' = Append(hist, [op |-> "add", k |-> k, v |-> v,
                             res |-> IF TooLong(v) THEN "valsize" ELSE IF TooBig(k, v) THEN "toobig" ELSE "ok",
                             size |-> size', count |-> count'])

GCommit(d) ==
    /\ st = "open" /\ Len(ents) > 0
    /\ st' = "committed"
    /\ hist' = Append(hist, [op |-> "commit", d |-> d, res |-> "ok", n |-> Len(ents),
                             tight |-> SendTooBig(d), real |-> RealSize(d)])
    /\ UNCHANGED <<size, count, ents, nadds>>

GenNext ==
    \/ \E k \in KLens : \E v \in VChoices(k) : GAdd(k, v)
    \/ \E d \in Digits : GCommit(d)

GenInit == Init /\ hist = <<>>
GenSpec == GenInit /\ [][GenNext]_gvars

Emit == st = "committed" => PrintT(<<"CASE", ToJson(hist)>>)
=============================================================================
