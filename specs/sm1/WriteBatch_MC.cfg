SPECIFICATION Spec
CONSTANTS
  Keys = {1, 2}
  Versions = {0, 3, 5}
  MaxOps = 4
  Mode = "at"
  AtTs = 5
  DupFirst = TRUE
INVARIANTS TypeOK LaterWins NothingPending
