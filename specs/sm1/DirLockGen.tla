----------------------------- MODULE DirLockGen -----------------------------
(* Case generator for C35: every open/close order of DirLock up to HistLen steps with   *)
(* the outcome of each Open ("ok" / "locked").                                          *)
EXTENDS DirLock, Json

CONSTANT HistLen
VARIABLE hist
gvars == <<vars, hist>>

Room == Len(hist) < HistLen
\* symmetry: opener p acts for the first time only after p-1 did
Acted(p) == \E i \in 1..Len(hist) : hist[i].p = p
InOrder(p) == \A r \in Openers : r < p => Acted(r)

\* A reader that bypasses the lock guard next to a live writer is outside the contract (it
\* reads the writer's untruncated memtable log and Open refuses for that reason): bypassing
\* opens are generated only while no guarded writer uses one of the directories.
NoWriterOn(dir, vdir) == \A r \in Openers : \A d \in DirsOf(dir, vdir) : ~(Uses(r, d) /\ held[r].mode = "rw")

GOpen(p, mode, dir, vdir, b) ==
    /\ Room /\ InOrder(p) /\ (b => NoWriterOn(dir, vdir)) /\ Open(p, mode, dir, vdir, b)
    /\ hist' = Append(hist, [op |-> "open", p |-> p, mode |-> mode, dir |-> dir, vdir |-> vdir, bypass |-> b,
                             res |-> IF OpenSucceeds(mode, dir, vdir, b) THEN "ok" ELSE "locked"])
GClose(p) ==
    /\ Room /\ Close(p)
    /\ hist' = Append(hist, [op |-> "close", p |-> p, mode |-> "", dir |-> 0, vdir |-> 0, bypass |-> FALSE, res |-> "ok"])

GenNext ==
    \/ \E p \in Openers, mode \in {"rw", "ro"}, c \in Configs, b \in BOOLEAN : GOpen(p, mode, c \div 10, c % 10, b)
    \/ \E p \in Openers : GClose(p)

GenInit == Init /\ hist = <<>>
GenSpec == GenInit /\ [][GenNext]_gvars
Emit == Len(hist) = HistLen => PrintT(<<"CASE", ToJson(hist)>>)
=============================================================================
