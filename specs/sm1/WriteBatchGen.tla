---------------------------- MODULE WriteBatchGen ----------------------------
(***************************************************************************)
(* Case generator for C27: every behaviour of WriteBatch (intended write   *)
(* order) that ends with Flush is printed once as a JSON case: the         *)
(* operation sequence (with the split points in plain mode, where the      *)
(* versions depend on them) and the database contents the specification    *)
(* predicts.  In "at"/"managed" mode the result does not depend on the     *)
(* split points (that is what LaterWins says), so the generator does not   *)
(* enumerate them: the replayer forces split sets of its own choice.       *)
(***************************************************************************)
EXTENDS WriteBatch, Json

CONSTANT MinOps    \* only batches with at least this many operations are emitted

VARIABLE hist
gvars == <<vars, hist>>

H(rec) == hist' = Append(hist, rec)

\* symmetry reduction of the generated set: the first operation uses the smallest key
FirstKeyOK(k) == n = 0 => k = CHOOSE x \in Keys : \A y \in Keys : x <= y

GIssue(k, v, d) == FirstKeyOK(k) /\ Issue(k, v, d) /\ H([op |-> IF d THEN "del" ELSE "set", k |-> k, ver |-> v, i |-> n + 1])
GSplit == Mode = "plain" /\ Split /\ H([op |-> "split", k |-> 0, ver |-> 0, i |-> n])
Content == {[k |-> c[1], ts |-> c[2], v |-> store'[c]] : c \in {x \in Cell : store'[x] # 0}}
GFlush == n >= MinOps /\ PendKeys # {} /\ Flush /\ H([op |-> "flush", k |-> 0, ver |-> 0, i |-> n, store |-> Content])

GenNext ==
    \/ \E k \in Keys, v \in Versions, d \in BOOLEAN : GIssue(k, v, d)
    \/ GSplit
    \/ GFlush

GenInit == Init /\ hist = <<>>
GenSpec == GenInit /\ [][GenNext]_gvars

Emit == done => PrintT(<<"CASE", ToJson(hist)>>)
=============================================================================
