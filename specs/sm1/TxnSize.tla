------------------------------ MODULE TxnSize ------------------------------
(***************************************************************************)
(* C28 - accepted transactions fit; writes validate keys and sizes.        *)
(*                                                                         *)
(* Part 1 (size accounting).  Txn.checkSize (txn.go) keeps a byte and an   *)
(* entry budget while writes are added; DB.sendToWriteCh (db.go) measures  *)
(* the real request at commit.  Both are written here with the constants   *)
(* of the code:                                                            *)
(*   newTransaction : size = len("!badger!txn") + 10 = Reserve, count = 1  *)
(*   checkSize      : count+1 >= maxBatchCount \/                          *)
(*                    size + estimate(e) + 10 >= maxBatchSize => TooBig    *)
(*   estimate(e)    : len(key) + len(value) + 2      if len(value) < thr   *)
(*                    len(key) + 12 + 2              otherwise (pointer)   *)
(*                    in-memory mode: always the first form (no value log) *)
(*   commitAndSend  : every key gets an 8 byte timestamp suffix; the end   *)
(*                    marker has key "!badger!txn"+8 bytes and the decimal *)
(*                    commit timestamp (1..20 digits) as value             *)
(*   sendToWriteCh  : count >= maxBatchCount \/ size >= maxBatchSize       *)
(*                    => ErrTxnTooBig                                      *)
(* Property AcceptedFits: once every write of a transaction was accepted,  *)
(* Commit does not fail with ErrTxnTooBig.  Reserve is a constant: 41      *)
(* (= 11 + 8 + 2 + 20) makes the property hold (the code since fix 42a4398);*)
(* before it 21 were reserved, for which TLC finds the counterexample (one entry, commit timestamp *)
(* with 3 or more digits).                                                 *)
(*                                                                         *)
(* Part 2 (validation).  Accepts/Validate give the error class Txn.modify  *)
(* must answer for a write, in the order of the checks in the code, and    *)
(* Readable the answer of a read (banned namespaces).                      *)
(***************************************************************************)
EXTENDS Integers, Sequences, FiniteSets, TLC

CONSTANTS MaxSize,    \* opt.maxBatchSize  (15% of MemTableSize)
          MaxCount,   \* opt.maxBatchCount (maxBatchSize / skl.MaxNodeSize)
          Threshold,  \* value threshold (values at or above it go to the value log)
          InMem,      \* BOOLEAN: Options.InMemory - no value log: every accepted value (up to and including
                      \* the threshold) stays in the LSM tree; longer values are refused by Txn.modify
          Reserve,    \* bytes newTransaction reserves for the end marker
          KLens,      \* key lengths explored
          FixedV,     \* fixed value lengths explored
          Dists,      \* distances below the byte limit at which an added entry lands (0 = on the limit)
          Digits,     \* decimal digits of the commit timestamp
          MaxAdds     \* bound on the number of writes attempted

TsLen == 8
MetaLen == 2
PtrLen == 12
Extra == 10          \* "extra bytes for the version in key" in checkSize
FinKeyLen == 11      \* len("!badger!txn")
MaxDigits == 20      \* decimal digits of 2^64-1
IntendedReserve == FinKeyLen + TsLen + MetaLen + MaxDigits

VARIABLES size, count,   \* Txn.size, Txn.count
          ents,          \* accepted writes, sequence of [k, v] (lengths)
          nadds,         \* writes attempted
          st             \* "open" | "committed" | "commitTooBig"

vars == <<size, count, ents, nadds, st>>

Est(k, v) == IF InMem \/ v < Threshold THEN k + v + MetaLen ELSE k + PtrLen + MetaLen

\* Txn.modify refuses the value before any accounting (in-memory mode only; the other
\* validation rules are Part 2)
TooLong(v) == InMem /\ v > Threshold

Init ==
    /\ size = Reserve
    /\ count = 1
    /\ ents = <<>>
    /\ nadds = 0
    /\ st = "open"

TooBig(k, v) == count + 1 >= MaxCount \/ size + Est(k, v) + Extra >= MaxSize

\* value length that makes the budget land `d` bytes below the limit (inline value);
\* d = 0 is exactly on the limit (refused), d = 1 the largest accepted entry
FillV(k, d) == MaxSize - d - size - k - MetaLen - Extra

VChoices(k) == FixedV \cup {FillV(k, d) : d \in Dists}

\* Txn.SetEntry -> modify -> checkSize for a valid key and value
Add(k, v) ==
    /\ st = "open" /\ nadds < MaxAdds
    /\ v >= 0
    /\ nadds' = nadds + 1
    /\ IF TooLong(v) \/ TooBig(k, v)
       THEN UNCHANGED <<size, count, ents>>
       ELSE /\ size' = size + Est(k, v) + Extra
            /\ count' = count + 1
            /\ ents' = Append(ents, [k |-> k, v |-> v])
    /\ UNCHANGED st

RECURSIVE SumEst(_)
SumEst(s) == IF s = <<>> THEN 0 ELSE Est(Head(s).k + TsLen, Head(s).v) + SumEst(Tail(s))

FinReal(d) == FinKeyLen + TsLen + d + MetaLen
RealSize(d) == SumEst(ents) + FinReal(d)
RealCount == Len(ents) + 1
SendTooBig(d) == RealCount >= MaxCount \/ RealSize(d) >= MaxSize

\* Txn.Commit -> commitAndSend -> sendToWriteCh, commit timestamp with d digits
Commit(d) ==
    /\ st = "open" /\ Len(ents) > 0
    /\ st' = IF SendTooBig(d) THEN "commitTooBig" ELSE "committed"
    /\ UNCHANGED <<size, count, ents, nadds>>

Next ==
    \/ \E k \in KLens : \E v \in VChoices(k) : Add(k, v)
    \/ \E d \in Digits : Commit(d)

Spec == Init /\ [][Next]_vars

-----------------------------------------------------------------------------
TypeOK ==
    /\ size \in Reserve..MaxSize
    /\ count \in 1..MaxCount
    /\ st \in {"open", "committed", "commitTooBig"}

\* C28: a transaction whose writes were all accepted commits
AcceptedFits == st # "commitTooBig"

\* the inductive reason: the budget never underestimates the real request
BudgetCovers == st = "open" /\ Len(ents) > 0 =>
                    /\ \A d \in Digits : RealSize(d) <= size
                    /\ RealCount <= count

-----------------------------------------------------------------------------
(* Part 2: validation of a write (Txn.modify) and of a read (Txn.Get / iterators).        *)
(* A key is described by its length, whether it starts with the reserved prefix          *)
(* "!badger!", and the namespace stored in its 8 bytes at NsOffset (0 = the key is too   *)
(* short to contain a namespace, or namespaces are off).                                  *)
MaxKeySize == 65000

Banned(key, banned) == key.ns # 0 /\ key.ns \in banned

\* error class of Set/SetEntry/Delete, "ok" if the write is accepted (size limits aside)
Validate(key, vlen, vlogFileSize, inMemory, thr, banned) ==
    IF key.len = 0 THEN "empty"
    ELSE IF key.reserved THEN "invalid"
    ELSE IF key.len > MaxKeySize THEN "keysize"
    ELSE IF vlen > vlogFileSize THEN "valsize"
    ELSE IF inMemory /\ vlen > thr THEN "valsize"
    ELSE IF Banned(key, banned) THEN "banned"
    ELSE "ok"

Accepts(key, vlen, vlogFileSize, inMemory, thr, banned) ==
    Validate(key, vlen, vlogFileSize, inMemory, thr, banned) = "ok"

\* error class of Txn.Get before the lookup
Readable(key, banned) ==
    IF key.len = 0 THEN "empty" ELSE IF Banned(key, banned) THEN "banned" ELSE "ok"
=============================================================================
