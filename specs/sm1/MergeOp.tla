------------------------------ MODULE MergeOp ------------------------------
(***************************************************************************)
(* C31 - a merge operator returns the fold of all added values.            *)
(*                                                                         *)
(* One merge key over a reduced LSM tree: the memtable, level 0 (a list of *)
(* tables, newest first) and one lower level.  Every source holds at most  *)
(* one entry per version; a reader that finds the same version in several  *)
(* sources takes the newest source (memtable, then L0 newest to oldest,    *)
(* then the lower level) - MergeIterator / DB.get precedence.              *)
(*   Add(x)   : MergeOperator.Add - a committed entry at a fresh version   *)
(*              with bitMergeEntry                                         *)
(*   Merge    : MergeOperator.compact - iterateAndMerge folds the versions *)
(*              newest to oldest up to (and including) the first entry     *)
(*              with bitDiscardEarlierVersions; if at least two versions   *)
(*              took part the result is written back AT THE VERSION OF THE *)
(*              NEWEST OPERAND with bitDiscardEarlierVersions and without   *)
(*              bitMergeEntry (merge.go)                                   *)
(*   Get      : the same fold, read-only                                   *)
(*   Flush    : memtable -> new L0 table                                   *)
(*   Compact(d): all of L0 and the lower level are merged with the         *)
(*              retention rule of levels.go subcompact for discard         *)
(*              timestamp d: merge entries are never dropped by            *)
(*              themselves; a non-merge entry at or below d with the        *)
(*              discard bit (or the NumVersionsToKeep-th one) is kept and   *)
(*              everything older is dropped                                *)
(*   Reopen   : MergeOperator.Stop (one last Merge), DB.Close (flush)      *)
(* Property GetIsFold: Get = concatenation of all added values in Add      *)
(* order, whatever Merge/Flush/Compact/Reopen steps ran in between.        *)
(***************************************************************************)
EXTENDS Integers, Sequences, FiniteSets, TLC

CONSTANTS MaxAdds,     \* number of operands
          MaxL0,       \* bound on the number of L0 tables
          NVK          \* Options.NumVersionsToKeep

VARIABLES mem,      \* set of entries [ts, val, merge, disc]
          l0,       \* sequence of sets of entries, newest table first
          low,      \* set of entries (the lower level)
          nextTs,
          adds      \* ghost: operands added so far, in order

vars == <<mem, l0, low, nextTs, adds>>

Init == mem = {} /\ l0 = <<>> /\ low = {} /\ nextTs = 1 /\ adds = <<>>

\* sources, newest first
Sources == <<mem>> \o l0 \o <<low>>
TsOf(S) == {e.ts : e \in S}
AllTs == UNION {TsOf(Sources[i]) : i \in 1..Len(Sources)}

\* the entry a reader sees for version t: from the newest source that has it
Newest(srcs, t) ==
    LET i == CHOOSE j \in 1..Len(srcs) : t \in TsOf(srcs[j]) /\ \A m \in 1..(j - 1) : t \notin TsOf(srcs[m])
    IN CHOOSE e \in srcs[i] : e.ts = t
ViewOf(srcs) == {Newest(srcs, t) : t \in UNION {TsOf(srcs[i]) : i \in 1..Len(srcs)}}
View == ViewOf(Sources)

\* versions of a set of entries, newest first
RECURSIVE Desc(_)
Desc(S) == IF S = {} THEN <<>>
           ELSE LET m == CHOOSE e \in S : \A f \in S : f.ts <= e.ts IN <<m>> \o Desc(S \ {m})

\* iterateAndMerge: the prefix of the versions (newest first) up to the first discard entry
RECURSIVE Taken(_)
Taken(s) == IF s = <<>> THEN <<>>
            ELSE IF Head(s).disc THEN <<Head(s)>>
            ELSE <<Head(s)>> \o Taken(Tail(s))

RECURSIVE FoldVal(_)
\* oldest first concatenation of the values of a newest-first sequence
FoldVal(s) == IF s = <<>> THEN <<>> ELSE FoldVal(Tail(s)) \o Head(s).val

GetResult == FoldVal(Taken(Desc(View)))     \* <<>> stands for ErrKeyNotFound

Add(x) ==
    /\ Len(adds) < MaxAdds
    /\ x = Len(adds) + 1
    /\ mem' = mem \cup {[ts |-> nextTs, val |-> <<x>>, merge |-> TRUE, disc |-> FALSE]}
    /\ nextTs' = nextTs + 1
    /\ adds' = Append(adds, x)
    /\ UNCHANGED <<l0, low>>

MergeWrites == Len(Taken(Desc(View))) >= 2
MergedEntry == LET tk == Taken(Desc(View)) IN [ts |-> tk[1].ts, val |-> FoldVal(tk), merge |-> FALSE, disc |-> TRUE]
MemAfterMerge == IF MergeWrites THEN {e \in mem : e.ts # MergedEntry.ts} \cup {MergedEntry} ELSE mem

Merge ==
    /\ mem' = MemAfterMerge
    /\ UNCHANGED <<l0, low, nextTs, adds>>

Flush ==
    /\ mem # {} /\ Len(l0) < MaxL0
    /\ l0' = <<mem>> \o l0
    /\ mem' = {}
    /\ UNCHANGED <<low, nextTs, adds>>

\* retention rule over a newest-first sequence of versions of the key
RECURSIVE Retain(_, _, _)
Retain(s, d, nv) ==
    IF s = <<>> THEN {}
    ELSE LET e == Head(s) IN
         IF e.ts <= d /\ ~e.merge
         THEN IF e.disc \/ nv + 1 = NVK THEN {e}                    \* kept, everything older skipped
              ELSE {e} \cup Retain(Tail(s), d, nv + 1)
         ELSE {e} \cup Retain(Tail(s), d, nv)

Compact(d) ==
    /\ Len(l0) > 0
    /\ low' = Retain(Desc(ViewOf(l0 \o <<low>>)), d, 0)
    /\ l0' = <<>>
    /\ UNCHANGED <<mem, nextTs, adds>>

\* MergeOperator.Stop runs compact once more; DB.Close flushes the memtable
Reopen ==
    /\ Len(l0) < MaxL0
    /\ LET m == MemAfterMerge IN
       /\ l0' = IF m = {} THEN l0 ELSE <<m>> \o l0
       /\ mem' = {}
    /\ UNCHANGED <<low, nextTs, adds>>

Next ==
    \/ \E x \in 1..MaxAdds : Add(x)
    \/ Merge \/ Flush \/ Reopen
    \/ \E d \in 0..(nextTs - 1) : Compact(d)

Spec == Init /\ [][Next]_vars

-----------------------------------------------------------------------------
TypeOK == nextTs \in 1..(MaxAdds + 1) /\ Len(l0) <= MaxL0

\* C31
GetIsFold == GetResult = adds

\* the newest version is always readable and every Add still contributes exactly once
NoOperandTwice == \A i, j \in 1..Len(GetResult) : i # j => GetResult[i] # GetResult[j]
=============================================================================
