------------------------------ MODULE DirLock ------------------------------
(***************************************************************************)
(* C35 - directory locking excludes a second writer.                       *)
(*                                                                         *)
(* Openers (DB instances, in one or several processes) open a database     *)
(* given by (Dir, ValueDir) read-write or read-only.  The mechanism of     *)
(* dir_unix.go / db.go Open is modelled: a non-blocking flock per          *)
(* directory (LOCK_EX for read-write, LOCK_SH for read-only; every         *)
(* acquisition has its own open file description, so two instances of one  *)
(* process exclude each other like two processes), Dir first, then         *)
(* ValueDir if it is a different directory; if the second lock cannot be   *)
(* taken the first is released and Open fails.  Close releases both.       *)
(* Options.BypassLockGuard skips the locks altogether.                     *)
(* Property Exclusion: a directory that is open read-write by one instance *)
(* is not open (read-write or read-only) by any other instance that uses   *)
(* the lock guard; OpenOutcome: an Open fails exactly when the property    *)
(* requires it to (read-only opens coexist, Close makes room again).       *)
(***************************************************************************)
EXTENDS Integers, Sequences, FiniteSets, TLC

CONSTANTS Openers,    \* DB instances (naturals)
          Dirs,       \* directories
          Configs,    \* (Dir, ValueDir) pairs an Open may use, coded as 10*Dir + ValueDir
          BypassRO    \* BOOLEAN: read-only opens with BypassLockGuard are explored

VARIABLES held,      \* opener -> [open, mode, dir, vdir, bypass]
          flock,     \* directory -> set of <<opener, "EX"|"SH">> locks
          lastRes    \* result of the last Open ("", "ok", "locked")

vars == <<held, flock, lastRes>>

Closed == [open |-> FALSE, mode |-> "", dir |-> 0, vdir |-> 0, bypass |-> FALSE]

Init == held = [p \in Openers |-> Closed] /\ flock = [d \in Dirs |-> {}] /\ lastRes = ""

Kind(mode) == IF mode = "rw" THEN "EX" ELSE "SH"
\* flock(LOCK_NB): EX needs no other lock at all, SH needs no EX lock
Grantable(d, kind) == IF kind = "EX" THEN flock[d] = {} ELSE \A l \in flock[d] : l[2] = "SH"

DirsOf(dir, vdir) == IF dir = vdir THEN {dir} ELSE {dir, vdir}

\* what Open does; Dir is locked first, ValueDir second, all or nothing
OpenSucceeds(mode, dir, vdir, bypass) ==
    bypass \/ \A d \in DirsOf(dir, vdir) : Grantable(d, Kind(mode))

Open(p, mode, dir, vdir, bypass) ==
    /\ ~held[p].open
    /\ (10 * dir + vdir) \in Configs
    /\ bypass => (BypassRO /\ mode = "ro")
    /\ IF OpenSucceeds(mode, dir, vdir, bypass)
       THEN /\ held' = [held EXCEPT ![p] = [open |-> TRUE, mode |-> mode, dir |-> dir, vdir |-> vdir, bypass |-> bypass]]
            /\ flock' = IF bypass THEN flock
                        ELSE [d \in Dirs |-> IF d \in DirsOf(dir, vdir) THEN flock[d] \cup {<<p, Kind(mode)>>} ELSE flock[d]]
            /\ lastRes' = "ok"
       ELSE /\ UNCHANGED <<held, flock>>
            /\ lastRes' = "locked"

Close(p) ==
    /\ held[p].open
    /\ held' = [held EXCEPT ![p] = Closed]
    /\ flock' = [d \in Dirs |-> {l \in flock[d] : l[1] # p}]
    /\ lastRes' = ""

Next ==
    \/ \E p \in Openers, mode \in {"rw", "ro"}, c \in Configs, b \in BOOLEAN : Open(p, mode, c \div 10, c % 10, b)
    \/ \E p \in Openers : Close(p)

Spec == Init /\ [][Next]_vars

-----------------------------------------------------------------------------
Uses(p, d) == held[p].open /\ ~held[p].bypass /\ d \in DirsOf(held[p].dir, held[p].vdir)

\* C35
Exclusion == \A d \in Dirs : \A p, r \in Openers :
    (p # r /\ Uses(p, d) /\ held[p].mode = "rw") => ~Uses(r, d)

\* the locks held are exactly those of the open instances (Close releases everything, a failed
\* Open keeps nothing)
LocksMatchInstances == \A d \in Dirs : flock[d] = {<<p, Kind(held[p].mode)>> : p \in {x \in Openers : Uses(x, d)}}

\* the contract's view of when an Open must succeed: no other guarded instance has one of the
\* directories open read-write, and for a read-write open none has it open at all
MustSucceed(p, mode, dir, vdir) ==
    \A d \in DirsOf(dir, vdir) : \A r \in Openers \ {p} :
        Uses(r, d) => (mode = "ro" /\ held[r].mode = "ro")
OpenOutcome == \A p \in Openers, mode \in {"rw", "ro"}, c \in Configs :
    ~held[p].open => (OpenSucceeds(mode, c \div 10, c % 10, FALSE) = MustSucceed(p, mode, c \div 10, c % 10))
=============================================================================
