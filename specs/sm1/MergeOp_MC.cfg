SPECIFICATION Spec
CONSTANTS
  MaxAdds = 3
  MaxL0 = 3
  NVK = 1
INVARIANTS TypeOK GetIsFold NoOperandTwice
