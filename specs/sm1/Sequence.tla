------------------------------ MODULE Sequence ------------------------------
(***************************************************************************)
(* C30 - sequence numbers are unique and increasing, across restarts.      *)
(*                                                                         *)
(* The lease protocol of db.go (GetSequence, Sequence.Next / updateLease / *)
(* Release) on top of SSI transactions, at transaction granularity: a      *)
(* lease transaction reads the stored lease when it begins, writes          *)
(* stored+bandwidth and commits; the commit fails with ErrConflict when     *)
(* another transaction wrote the key in between (oracle.hasConflict).       *)
(* Several Sequence objects (of one process) work on the same key; an       *)
(* object runs one call at a time (Sequence.lock).  Restart = DB.Close +    *)
(* Open: all objects are gone, the stored lease stays.                      *)
(*                                                                         *)
(* AssignEarly = TRUE models the tree before fix 81a452d: it stored seq.next *)
(* and seq.leased inside the Update closure, i.e. before the commit, and    *)
(* kept them when the commit failed.  AssignEarly = FALSE is the intended   *)
(* protocol and the code since the fix (the object changes only after the   *)
(* transaction committed).                                                  *)
(***************************************************************************)
EXTENDS Integers, FiniteSets, TLC

CONSTANTS Objs,        \* Sequence objects (naturals)
          BW,          \* bandwidth
          MaxStored,   \* bound on the stored lease (state constraint of the model)
          MaxVer,      \* bound on the number of committed writes of the key (state constraint)
          MaxRestarts,
          MaxQueued,   \* bound on the number of Next calls issued while their object is busy
          AssignEarly

VARIABLES stored,    \* lease stored under the key; -1 = key absent
          ver,       \* number of committed writes of the key (conflict detection)
          obj,       \* per object: live, next, leased, and the transaction in flight
          given,     \* ghost: numbers handed out so far
          lastOf,    \* ghost: object -> last number it handed out (-1 none); reset at restart
          bad,       \* ghost: "" or the name of the violated property
          restarts,
          nq         \* number of queued Next calls so far

vars == <<stored, ver, obj, given, lastOf, bad, restarts, nq>>

NoTxn == [kind |-> "none", readVer |-> 0, val |-> 0]
Fresh == [live |-> FALSE, next |-> 0, leased |-> 0, txn |-> NoTxn, wait |-> FALSE]

Init ==
    /\ stored = -1 /\ ver = 0
    /\ obj = [o \in Objs |-> Fresh]
    /\ given = {} /\ lastOf = [o \in Objs |-> -1] /\ bad = "" /\ restarts = 0 /\ nq = 0

\* no call of the object is running or waiting for Sequence.lock
Idle(o) == obj[o].live /\ obj[o].txn.kind = "none" /\ ~obj[o].wait
ReadLease == IF stored = -1 THEN 0 ELSE stored

\* ---- lease transaction (updateLease): begin = NewTransaction + Get + SetEntry
LeaseBegin(o, kind) ==
    LET nx == ReadLease IN
    obj' = [obj EXCEPT ![o].txn = [kind |-> kind, readVer |-> ver, val |-> nx],
                       ![o].next = IF AssignEarly THEN nx ELSE @,
                       ![o].leased = IF AssignEarly THEN nx + BW ELSE @]

\* DB.GetSequence: a new object, then updateLease
GetBegin(o) ==
    /\ ~obj[o].live
    /\ \A p \in Objs : p < o => obj[p].live          \* symmetry: objects are created in order
    /\ obj' = [obj EXCEPT ![o] = [live |-> TRUE, next |-> IF AssignEarly THEN ReadLease ELSE 0,
                                   leased |-> IF AssignEarly THEN ReadLease + BW ELSE 0,
                                   txn |-> [kind |-> "get", readVer |-> ver, val |-> ReadLease], wait |-> FALSE]]
    /\ UNCHANGED <<stored, ver, given, lastOf, bad, restarts, nq>>

Conflict(o) == ver # obj[o].txn.readVer

\* outcome of GetSequence: "ok" or "conflict" (the caller then has no usable object)
GetCommit(o) ==
    /\ obj[o].live /\ obj[o].txn.kind = "get"
    /\ IF Conflict(o)
       THEN /\ obj' = [obj EXCEPT ![o] = Fresh]
            /\ UNCHANGED <<stored, ver>>
       ELSE /\ stored' = obj[o].txn.val + BW
            /\ ver' = ver + 1
            /\ obj' = [obj EXCEPT ![o].txn = NoTxn, ![o].next = obj[o].txn.val, ![o].leased = obj[o].txn.val + BW]
    /\ UNCHANGED <<given, lastOf, bad, restarts, nq>>

HandOut(o, v) ==
    /\ given' = given \cup {v}
    /\ lastOf' = [lastOf EXCEPT ![o] = v]
    /\ bad' = IF bad # "" THEN bad
              ELSE IF v \in given THEN "Unique"
              ELSE IF v <= lastOf[o] THEN "Increasing"
              ELSE ""

\* Sequence.Next served from the lease held in memory
NextFast(o) ==
    /\ Idle(o) /\ obj[o].next < obj[o].leased
    /\ HandOut(o, obj[o].next)
    /\ obj' = [obj EXCEPT ![o].next = @ + 1]
    /\ UNCHANGED <<stored, ver, restarts, nq>>

\* Sequence.Next that has to renew the lease
NextBegin(o) ==
    /\ Idle(o) /\ obj[o].next >= obj[o].leased
    /\ LeaseBegin(o, "next")
    /\ UNCHANGED <<stored, ver, given, lastOf, bad, restarts, nq>>

NextCommit(o) ==
    /\ obj[o].live /\ obj[o].txn.kind = "next"
    /\ IF Conflict(o)
       THEN /\ obj' = [obj EXCEPT ![o].txn = NoTxn]      \* Next returns ErrConflict
            /\ UNCHANGED <<stored, ver, given, lastOf, bad>>
       ELSE /\ stored' = obj[o].txn.val + BW
            /\ ver' = ver + 1
            /\ obj' = [obj EXCEPT ![o].txn = NoTxn, ![o].next = obj[o].txn.val + 1, ![o].leased = obj[o].txn.val + BW]
            /\ HandOut(o, obj[o].txn.val)
    /\ UNCHANGED <<restarts, nq>>

\* Sequence.Release: writes next back if the stored lease is still this object's lease
ReleaseWrites(o) == stored = obj[o].leased
ReleaseBegin(o) ==
    /\ Idle(o) /\ stored # -1
    /\ IF ReleaseWrites(o)
       THEN obj' = [obj EXCEPT ![o].txn = [kind |-> "release", readVer |-> ver, val |-> obj[o].next]]
       ELSE obj' = [obj EXCEPT ![o].leased = obj[o].next]   \* nothing to write: Update commits trivially
    /\ UNCHANGED <<stored, ver, given, lastOf, bad, restarts, nq>>

ReleaseCommit(o) ==
    /\ obj[o].live /\ obj[o].txn.kind = "release"
    /\ IF Conflict(o)
       THEN /\ obj' = [obj EXCEPT ![o].txn = NoTxn]
            /\ UNCHANGED <<stored, ver>>
       ELSE /\ stored' = obj[o].txn.val
            /\ ver' = ver + 1
            /\ obj' = [obj EXCEPT ![o].txn = NoTxn, ![o].leased = obj[o].next]
    /\ UNCHANGED <<given, lastOf, bad, restarts, nq>>

\* A second goroutine calls Next on an object whose Release or lease renewal is inside its
\* transaction: Sequence.lock is held for the whole call, so the new call waits ...
NextQueued(o) ==
    /\ nq < MaxQueued
    /\ obj[o].live /\ obj[o].txn.kind \in {"next", "release"} /\ ~obj[o].wait
    /\ obj' = [obj EXCEPT ![o].wait = TRUE]
    /\ nq' = nq + 1
    /\ UNCHANGED <<stored, ver, given, lastOf, bad, restarts>>

\* ... and runs when the call in flight has returned: from memory, or by renewing the lease
Resume(o) ==
    /\ obj[o].live /\ obj[o].wait /\ obj[o].txn.kind = "none"
    /\ IF obj[o].next < obj[o].leased
       THEN /\ HandOut(o, obj[o].next)
            /\ obj' = [obj EXCEPT ![o].next = @ + 1, ![o].wait = FALSE]
       ELSE /\ obj' = [obj EXCEPT ![o].txn = [kind |-> "next", readVer |-> ver, val |-> ReadLease], ![o].wait = FALSE,
                                  ![o].next = IF AssignEarly THEN ReadLease ELSE @,
                                  ![o].leased = IF AssignEarly THEN ReadLease + BW ELSE @]
            /\ UNCHANGED <<given, lastOf, bad>>
    /\ UNCHANGED <<stored, ver, restarts, nq>>

\* DB.Close + Open: no call in flight; every Sequence object is gone
Restart ==
    /\ restarts < MaxRestarts
    /\ \A o \in Objs : obj[o].txn.kind = "none" /\ ~obj[o].wait
    /\ \E o \in Objs : obj[o].live
    /\ obj' = [o \in Objs |-> Fresh]
    /\ lastOf' = [o \in Objs |-> -1]
    /\ restarts' = restarts + 1
    /\ UNCHANGED <<stored, ver, given, bad, nq>>

Next ==
    \/ \E o \in Objs : GetBegin(o) \/ GetCommit(o) \/ NextFast(o) \/ NextBegin(o) \/ NextCommit(o)
                        \/ ReleaseBegin(o) \/ ReleaseCommit(o) \/ NextQueued(o) \/ Resume(o)
    \/ Restart

Spec == Init /\ [][Next]_vars

Bound == stored <= MaxStored /\ ver <= MaxVer

-----------------------------------------------------------------------------
TypeOK ==
    /\ stored \in -1..(MaxStored + BW)
    /\ ver \in Nat

\* C30: no number is handed out twice (by any object, before or after a restart) ...
Unique == bad # "Unique"
\* ... and every object hands out strictly increasing numbers
StrictlyIncreasingPerObject == bad # "Increasing"
\* the reason uniqueness survives a restart (and a crash): every number handed out lies
\* below the stored lease
DurableLease == \A v \in given : stored # -1 /\ v < stored
\* numbers an object can still hand out from memory lie below the stored lease
LeaseWithinStored == \A o \in Objs : (Idle(o) /\ obj[o].next < obj[o].leased) => obj[o].leased <= stored
=============================================================================
