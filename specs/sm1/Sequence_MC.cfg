SPECIFICATION Spec
CONSTANTS
  Objs = {1, 2}
  BW = 2
  MaxStored = 8
  MaxVer = 6
  MaxRestarts = 1
  MaxQueued = 1
  AssignEarly = FALSE
CONSTRAINT Bound
INVARIANTS TypeOK Unique StrictlyIncreasingPerObject DurableLease LeaseWithinStored
