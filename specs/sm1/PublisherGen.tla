---------------------------- MODULE PublisherGen ----------------------------
(***************************************************************************)
(* Case generator for C32 (LookupKey = "user": the contract).  A case:     *)
(* subscriptions are composed pattern by pattern and registered, then      *)
(* transactions commit sets of user keys and subscribers may leave; the    *)
(* last record holds, per subscriber, the sequence of deliveries the       *)
(* contract demands (commit by commit, in commit order).                   *)
(***************************************************************************)
EXTENDS Publisher, Json

CONSTANTS HistLen, UnsubWeight

VARIABLES hist, pend, fin
gvars == <<vars, hist, pend, fin>>

H(r) == hist' = Append(hist, r)
Room == Len(hist) < HistLen /\ ~fin
AllRegistered == \A s \in Subs : state[s] # "new"

GPick(s, p) ==
    /\ ~fin /\ state[s] = "new" /\ \A u \in Subs : u < s => state[u] # "new"
    /\ Cardinality(pend[s]) < MaxPats /\ p \notin pend[s]
    /\ pend' = [pend EXCEPT ![s] = @ \cup {p}]
    /\ UNCHANGED <<vars, hist, fin>>

GSubscribe(s) ==
    /\ ~fin /\ pend[s] # {}
    /\ Subscribe(s, pend[s])
    /\ H([op |-> "subscribe", s |-> s, pats |-> pend[s], ver |-> 0, keys |-> {}])
    /\ UNCHANGED <<pend, fin>>

GUnsubscribe(s) ==
    /\ Room /\ AllRegistered /\ Unsubscribe(s)
    /\ H([op |-> "unsubscribe", s |-> s, pats |-> {}, ver |-> 0, keys |-> {}])
    /\ UNCHANGED <<pend, fin>>

GCommit(ks) ==
    /\ Room /\ AllRegistered /\ Commit(ks)
    /\ H([op |-> "commit", s |-> 0, pats |-> {}, ver |-> nextTs, keys |-> ks])
    /\ UNCHANGED <<pend, fin>>

GFinish ==
    /\ ~fin /\ AllRegistered /\ (Len(hist) = HistLen \/ ncommits = MaxCommits)
    /\ fin' = TRUE
    /\ H([op |-> "end", s |-> 0, pats |-> {}, ver |-> 0, keys |-> {}, expected |-> expected])
    /\ UNCHANGED <<vars, pend>>

GenNext ==
    \/ \E s \in Subs, p \in AllPats : GPick(s, p)
    \/ \E s \in Subs : GSubscribe(s)
    \/ \E s \in Subs, w \in 1..UnsubWeight : GUnsubscribe(s)
    \/ \E ks \in KeySets : GCommit(ks)
    \/ GFinish

GenInit == Init /\ hist = <<>> /\ pend = [s \in Subs |-> {}] /\ fin = FALSE
GenSpec == GenInit /\ [][GenNext]_gvars

Emit == fin => PrintT(<<"CASE", ToJson(hist)>>)
=============================================================================
