----------------------------- MODULE WriteBatch -----------------------------
(***************************************************************************)
(* C27 - WriteBatch applies every operation, later operations winning.     *)
(*                                                                         *)
(* A batch is a sequence of operations Set/Delete over (key, version);     *)
(* version 0 means "not given" and is resolved to the commit timestamp of  *)
(* the internal transaction that carries the operation.  The batch is cut  *)
(* into internal transactions at arbitrary points (whenever Txn.SetEntry   *)
(* answers ErrTxnTooBig, batch.go handleEntry/commit).  Inside one         *)
(* internal transaction the mechanism of txn.go is modelled as it is       *)
(* written: modify() keeps one pending entry per key and moves the older   *)
(* entry to duplicateWrites when the versions differ; commitAndSend()      *)
(* resolves version 0 to the commit timestamp and hands pending and        *)
(* duplicate entries to the writer, which applies them in list order (the  *)
(* memtable keeps the last entry written for an internal key).             *)
(*                                                                         *)
(* DupFirst = TRUE is the intended order (duplicates, which are all older  *)
(* calls, before the pending entries); DupFirst = FALSE is the order the  *)
(* tree had before fix a5388b6 (commitAndSend: pendingWrites then          *)
(* duplicateWrites), for which TLC finds the LaterWins counterexample.     *)
(*                                                                         *)
(* Code anchors: batch.go (NewWriteBatch, handleEntry, Delete, commit,     *)
(* Flush), managed_db.go (NewWriteBatchAt, NewManagedWriteBatch), txn.go   *)
(* (modify, commitAndSend).                                                *)
(***************************************************************************)
EXTENDS Integers, Sequences, FiniteSets, TLC

CONSTANTS Keys,      \* finite set of naturals
          Versions,  \* versions an operation may carry (0 = not given)
          MaxOps,    \* bound on the number of operations of the batch
          Mode,      \* "plain" (NewWriteBatch), "at" (NewWriteBatchAt(AtTs)), "managed" (NewManagedWriteBatch)
          AtTs,      \* commit timestamp of NewWriteBatchAt
          DupFirst   \* BOOLEAN, see above

VARIABLES n,        \* number of operations issued so far; operation i writes value i
          pend,     \* Txn.pendingWrites of the current internal transaction: key -> op or NoOp
          dups,     \* Txn.duplicateWrites (sequence of ops)
          store,    \* the database: <<key, ts>> -> op index that wrote it (negative = delete marker), 0 = absent
          want,     \* ghost: for modes with caller-known versions, what LaterWins demands
          last,     \* ghost: key -> index of the last operation on the key (negative for delete)
          nextTs,   \* oracle.nextTxnTs (plain mode)
          ntx,      \* number of internal transactions committed
          done      \* Flush returned

vars == <<n, pend, dups, store, want, last, nextTs, ntx, done>>

NoOp == [i |-> 0, k |-> 0, ver |-> 0, del |-> FALSE]
MaxTs == IF Mode = "plain" THEN MaxOps + 1 ELSE 9
TsRange == 0..MaxTs
Cell == Keys \X TsRange

Val(op) == IF op.del THEN -op.i ELSE op.i

Init ==
    /\ n = 0
    /\ pend = [k \in Keys |-> NoOp]
    /\ dups = <<>>
    /\ store = [c \in Cell |-> 0]
    /\ want = [c \in Cell |-> 0]
    /\ last = [k \in Keys |-> 0]
    /\ nextTs = 1
    /\ ntx = 0
    /\ done = FALSE

\* timestamp commitAndSend resolves version 0 to
CommitTsNow == IF Mode = "plain" THEN nextTs ELSE IF Mode = "at" THEN AtTs ELSE 0
Eff(op, cts) == IF op.ver = 0 THEN cts ELSE op.ver

\* WriteBatch.Set/SetEntry/SetEntryAt/Delete/DeleteAt -> Txn.modify
Issue(k, v, d) ==
    /\ ~done /\ n < MaxOps
    /\ v \in Versions
    /\ LET op == [i |-> n + 1, k |-> k, ver |-> v, del |-> d] IN
       /\ n' = n + 1
       /\ dups' = IF pend[k] # NoOp /\ pend[k].ver # v THEN Append(dups, pend[k]) ELSE dups
       /\ pend' = [pend EXCEPT ![k] = op]
       /\ last' = [last EXCEPT ![k] = Val(op)]
       /\ want' = IF Mode = "plain" THEN want
                  ELSE [want EXCEPT ![<<k, Eff(op, CommitTsNow)>>] = Val(op)]
    /\ UNCHANGED <<store, nextTs, ntx, done>>

PendKeys == {k \in Keys : pend[k] # NoOp}

RECURSIVE SeqOfSet(_)
SeqOfSet(S) == IF S = {} THEN <<>>
               ELSE LET k == CHOOSE x \in S : \A y \in S : x <= y IN <<pend[k]>> \o SeqOfSet(S \ {k})

\* the list commitAndSend hands to the writer
WriteOrder == IF DupFirst THEN dups \o SeqOfSet(PendKeys) ELSE SeqOfSet(PendKeys) \o dups

RECURSIVE Apply(_, _, _)
Apply(st, ws, cts) ==
    IF ws = <<>> THEN st
    ELSE Apply([st EXCEPT ![<<Head(ws).k, Eff(Head(ws), cts)>>] = Val(Head(ws))], Tail(ws), cts)

CommitCurrent ==
    /\ store' = Apply(store, WriteOrder, CommitTsNow)
    /\ pend' = [k \in Keys |-> NoOp]
    /\ dups' = <<>>
    /\ nextTs' = IF Mode = "plain" THEN nextTs + 1 ELSE nextTs
    /\ ntx' = ntx + 1

\* ErrTxnTooBig at an arbitrary point: WriteBatch.commit, then a new transaction
Split ==
    /\ ~done /\ PendKeys # {} /\ n < MaxOps
    /\ CommitCurrent
    /\ UNCHANGED <<n, want, last, done>>

Flush ==
    /\ ~done /\ n > 0
    /\ IF PendKeys # {} THEN CommitCurrent ELSE UNCHANGED <<store, pend, dups, nextTs, ntx>>
    /\ done' = TRUE
    /\ UNCHANGED <<n, want, last>>

Next ==
    \/ \E k \in Keys, v \in Versions, d \in BOOLEAN : Issue(k, v, d)
    \/ Split
    \/ Flush

Spec == Init /\ [][Next]_vars

-----------------------------------------------------------------------------
TypeOK ==
    /\ n \in 0..MaxOps
    /\ \A c \in Cell : store[c] \in (-MaxOps)..MaxOps
    /\ nextTs \in 1..(MaxOps + 2)

Abs(x) == IF x < 0 THEN -x ELSE x
VersOf(k) == {t \in TsRange : store[<<k, t>>] # 0}

\* C27: after Flush the database holds, for every (key, version), the last call
LaterWins ==
    done =>
      IF Mode = "plain"
      THEN \A k \in Keys :
             /\ (last[k] = 0) = (VersOf(k) = {})
             /\ last[k] # 0 => store[<<k, CHOOSE t \in VersOf(k) : \A u \in VersOf(k) : u <= t>>] = last[k]
             \* older versions are earlier calls on the same key, in call order
             /\ \A t, u \in VersOf(k) : t < u => Abs(store[<<k, t>>]) < Abs(store[<<k, u>>])
      ELSE \A c \in Cell : store[c] = want[c]

\* every operation is reflected: nothing is pending after Flush
NothingPending == done => PendKeys = {} /\ dups = <<>>
=============================================================================
