SPECIFICATION GenSpec
CONSTANTS
  Keys = {1, 2}
  MaxTs = 3
  MaxLevel = 2
  MinL0L0 = 2
  NVK = 1
  Kinds = {"val", "del"}
  L0L0KeepsTombstones = FALSE
  BaseSkip = "none"
  MaxId = 6
  Wide = 0
  L0Hold = 0
  MtMax = 9
ACTION_CONSTRAINT PrintCase
VIEW View
