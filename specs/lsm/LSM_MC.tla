---- MODULE LSM_MC ----
EXTENDS LSM
\* views/bounds for exhaustive checking
Bound == nextId <= MaxId + 1
====
