SPECIFICATION Spec
CONSTANTS
  Keys = {1, 2}
  MaxLevel = 2
  Compactors = {0}
  MinL0L0 = 2
  MaxId = 11
  StaleTargets = FALSE
  BaseSize = 1
  Mult = 2
  FillChecks = FALSE
  Drops = TRUE
  Clamp = FALSE
INVARIANTS StatusExact InputsDisjoint InputsLive Disjoint OutputSafe NoJump
