----------------------------- MODULE Compactors -----------------------------
(***************************************************************************)
(* Concurrently running compactions: how the compactors of levels.go pick  *)
(* tables (fillTablesL0ToLbase, fillTablesL0ToL0, fillTables), how          *)
(* compactStatus (compaction.go) keeps them apart, and what that has to     *)
(* guarantee for the tree (C14: levels below L0 stay disjoint; C12: an      *)
(* L0->Lbase compaction never jumps over a non-empty level).                *)
(*                                                                         *)
(* One action per critical section of the code:                            *)
(*   Capture(c, l)  runCompactor: pickCompactLevels -> priority p with the  *)
(*                  level targets (base level, transcribed from            *)
(*                  levelTargets) of THAT moment                           *)
(*   Fill(c)        doCompact: fillTables* under the level read locks and   *)
(*                  the compactStatus lock; registers ranges and tables     *)
(*   Finish(c)      runCompactDef install + deferred cstatus.delete         *)
(*   Flush          a memtable becomes a new L0 table                       *)
(* Tables are key intervals; a compaction writes one table that spans its   *)
(* inputs (nothing is dropped: the widest output the code can produce).     *)
(***************************************************************************)
EXTENDS Integers, Sequences, FiniteSets, TLC

CONSTANTS Keys,          \* 1..N
          MaxLevel,      \* levels 0..MaxLevel
          Compactors,    \* compactor ids, 0 is the one allowed to do L0->L0
          MinL0L0,       \* tables needed for L0->L0 (4 in the code)
          MaxId,         \* bound on table ids
          StaleTargets,  \* TRUE: the targets captured by pickCompactLevels are used by a later
                         \*       doCompact (the code); FALSE: capture and fill are one step
          BaseSize,      \* Options.BaseLevelSize   (in the unit of table weights)
          Mult,          \* Options.LevelSizeMultiplier
          FillChecks,    \* TRUE: fillTablesL0ToLbase refuses to jump over a level that holds tables by
                         \*       now (the repaired code); FALSE: it trusts the captured base level
          Drops,         \* TRUE: a compaction may write less than it read
          Clamp          \* TRUE: levelTargets keeps the base level at or above the first non-empty
                         \*       level (the repaired code); FALSE: the code before that repair

VARIABLES tabs,      \* set of [id, lvl, lo, hi, mv, sv, w]   (mv: max version, sv: version of the smallest key, w: size)
          l0,        \* ids of the L0 tables, oldest first (levelHandler.tables of level 0)
          ranges,    \* compactStatus.levels[l].ranges : level -> sequence of ranges
          busy,      \* compactStatus.tables
          prio,      \* compactor -> NoPrio | [level, base, adjok]  (adjok: the adjusted score lets L0 go to Lbase)
          job,       \* compactor -> NoJob | [this, next, top, bot, thisRange, nextRange]
          nextId, nextMv

vars == <<tabs, l0, ranges, busy, prio, job, nextId, nextMv>>

Levels == 0..MaxLevel
NoPrio == [level |-> -1, base |-> -1, adjok |-> FALSE]
NoJob  == [this |-> -1, next |-> -1, top |-> {}, bot |-> {}, thisRange |-> <<>>, nextRange |-> <<>>]
\* key ranges: <<>> empty (keyRange{}), <<"inf">> infinite, <<lo, hi>>
Inf == <<"inf">>
Empty == <<>>

TabsAt(l) == {t \in tabs : t.lvl = l}
ById(i) == CHOOSE t \in tabs : t.id = i
Min(S) == CHOOSE x \in S : \A y \in S : x <= y
Max(S) == CHOOSE x \in S : \A y \in S : x >= y
RangeOf(ts) == IF ts = {} THEN Empty ELSE <<Min({t.lo : t \in ts}), Max({t.hi : t \in ts})>>

\* keyRange.overlapsWith (r is the receiver)
Ovl(r, d) == IF r = Empty THEN TRUE
             ELSE IF d = Empty THEN FALSE
             ELSE IF r = Inf \/ d = Inf THEN TRUE
             ELSE ~(r[1] > d[2]) /\ ~(r[2] < d[1])
LevelBusy(l, d) == \E i \in DOMAIN ranges[l] : Ovl(ranges[l][i], d)
\* levelHandler.overlappingTables: nothing for an empty range
Overlapping(l, r) == IF r = Empty \/ r = Inf THEN {}
                     ELSE {t \in TabsAt(l) : ~(r[1] > t.hi) /\ ~(r[2] < t.lo)}

\* ------------------------------------------------------------------ levelTargets (levels.go)
RECURSIVE SumW(_)
SumW(ts) == IF ts = {} THEN 0 ELSE LET t == CHOOSE x \in ts : TRUE IN t.w + SumW(ts \ {t})
Sizes == [l \in Levels |-> SumW(TabsAt(l))]                 \* levelHandler.getTotalSize per level
Adjust(x) == IF x < BaseSize THEN BaseSize ELSE x
RECURSIVE Pow(_, _)
Pow(b, e) == IF e = 0 THEN 1 ELSE b * Pow(b, e - 1)
\* dbSize after it has been divided once per level on the way up from the last level
TargetSz(sz, i) == Adjust(sz[MaxLevel] \div Pow(Mult, MaxLevel - i))
\* the size loop: the lowest level whose target does not exceed BaseLevelSize (0 if none)
SizeBase(sz) == LET c == {i \in 1..MaxLevel : TargetSz(sz, i) <= BaseSize} IN IF c = {} THEN 0 ELSE Max(c)
\* "bring the base level down to the last empty level"
RECURSIVE Down(_, _, _)
Down(sz, b, i) == IF i > MaxLevel - 1 THEN b ELSE IF sz[i] > 0 THEN b ELSE Down(sz, i, i + 1)
\* "if the base level is empty and the next level is below its target, pick the next level"
NextIfEmpty(sz, b) == IF b < MaxLevel /\ sz[b] = 0 /\ sz[b + 1] < TargetSz(sz, b + 1) THEN b + 1 ELSE b
NeverZero(b) == IF b = 0 THEN 1 ELSE b
\* the repair: never below a non-empty level
Clamped(sz, b) == LET ne == {i \in 1..(b - 1) : sz[i] > 0} IN IF Clamp /\ ne # {} THEN Min(ne) ELSE b
BaseLevel(sz) == Clamped(sz, NeverZero(NextIfEmpty(sz, Down(sz, SizeBase(sz), SizeBase(sz) + 1))))

Init == /\ tabs = {}
        /\ l0 = <<>>
        /\ ranges = [l \in Levels |-> <<>>]
        /\ busy = {}
        /\ prio = [c \in Compactors |-> NoPrio]
        /\ job = [c \in Compactors |-> NoJob]
        /\ nextId = 1
        /\ nextMv = 1

\* ------------------------------------------------------------------ picking
\* fillTablesL0ToLbase: oldest-first prefix while it overlaps the growing range
RECURSIVE PrefixL0(_, _)
PrefixL0(i, acc) ==
    IF i > Len(l0) THEN acc
    ELSE LET t == ById(l0[i]) IN
         IF acc = {} \/ Ovl(RangeOf(acc), <<t.lo, t.hi>>) THEN PrefixL0(i + 1, acc \cup {t}) ELSE acc

L0ToBaseJob(b) ==
    LET top == PrefixL0(1, {})
        tr  == RangeOf(top)
        bot == Overlapping(b, tr)
        nr  == IF bot = {} THEN tr ELSE RangeOf(bot)
    IN [this |-> 0, next |-> b, top |-> {t.id : t \in top}, bot |-> {t.id : t \in bot}, thisRange |-> tr, nextRange |-> nr]

\* compareAndAdd
Accepts(j) == ~LevelBusy(j.this, j.thisRange) /\ ~LevelBusy(j.next, j.nextRange)

\* fillTablesL0ToL0 (compactor 0 only; every table counts as small and old enough here)
L0ToL0Job == LET out == {i \in {l0[k] : k \in DOMAIN l0} : i \notin busy}
             IN [this |-> 0, next |-> 0, top |-> out, bot |-> {}, thisRange |-> Inf, nextRange |-> Empty]

\* fillTables (level >= 1, not the last): tables by increasing max version; the first one that passes
Candidate(l, t) ==
    LET tr  == <<t.lo, t.hi>>
        bot == Overlapping(l + 1, tr)
        nr  == IF bot = {} THEN tr ELSE RangeOf(bot)
    IN [this |-> l, next |-> l + 1, top |-> {t.id}, bot |-> {u.id : u \in bot}, thisRange |-> tr, nextRange |-> nr]
Passes(l, t) == ~LevelBusy(l, <<t.lo, t.hi>>) /\ Accepts(Candidate(l, t))

Register(c, j) ==
    /\ job' = [job EXCEPT ![c] = j]
    /\ busy' = busy \cup j.top \cup j.bot
    /\ ranges' = IF j.this = j.next
                 THEN [ranges EXCEPT ![0] = Append(@, Inf)]          \* L0->L0 registers only the infinite range
                 ELSE [ranges EXCEPT ![j.this] = Append(@, j.thisRange), ![j.next] = Append(@, j.nextRange)]

\* the levels between L0 and the base level hold no table (checked under the level locks)
NothingSkipped(b) == \A i \in 1..(b - 1) : TabsAt(i) = {}

FillWith(c, l, b, adjok) ==
    IF l = 0 THEN
        IF adjok /\ l0 # <<>> /\ (FillChecks => NothingSkipped(b)) /\ Accepts(L0ToBaseJob(b)) THEN Register(c, L0ToBaseJob(b))
        ELSE IF c = 0 /\ Cardinality(L0ToL0Job.top) >= MinL0L0 THEN Register(c, L0ToL0Job)
        ELSE UNCHANGED <<job, busy, ranges>>
    ELSE
        LET ok == {t \in TabsAt(l) : Passes(l, t)} IN
        IF ok = {} THEN UNCHANGED <<job, busy, ranges>>
        ELSE LET t == CHOOSE x \in ok : \A y \in ok : x.mv <= y.mv IN Register(c, Candidate(l, t))

Capture(c, l, a) ==
    /\ StaleTargets
    /\ prio[c] = NoPrio /\ job[c] = NoJob
    /\ l \in 0..(MaxLevel - 1) /\ TabsAt(l) # {}
    /\ prio' = [prio EXCEPT ![c] = [level |-> l, base |-> BaseLevel(Sizes), adjok |-> a]]
    /\ UNCHANGED <<tabs, l0, ranges, busy, job, nextId, nextMv>>

Fill(c) ==
    /\ StaleTargets
    /\ prio[c] # NoPrio
    /\ FillWith(c, prio[c].level, prio[c].base, prio[c].adjok)
    /\ prio' = [prio EXCEPT ![c] = NoPrio]
    /\ UNCHANGED <<tabs, l0, nextId, nextMv>>

\* capture and fill in one step (targets are never stale)
PickNow(c, l, a) ==
    /\ ~StaleTargets
    /\ prio[c] = NoPrio /\ job[c] = NoJob
    /\ l \in 0..(MaxLevel - 1) /\ TabsAt(l) # {}
    /\ FillWith(c, l, BaseLevel(Sizes), a)
    /\ UNCHANGED <<tabs, l0, prio, nextId, nextMv>>

\* ------------------------------------------------------------------ installing
RemoveOne(s, r) == LET idx == {i \in DOMAIN s : s[i] = r} IN
                   \* levelCompactStatus.remove drops every range equal to r
                   LET keep == {i \in DOMAIN s : s[i] # r} IN
                   [k \in 1..Cardinality(keep) |-> s[CHOOSE i \in keep : Cardinality({m \in keep : m < i}) = k - 1]]

\* replaceTables re-sorts level 0 by smallest key (then newest first): see LSM.tla
L0Before(a, b) == \/ a.lo < b.lo \/ (a.lo = b.lo /\ a.sv > b.sv) \/ (a.lo = b.lo /\ a.sv = b.sv /\ a.id < b.id)
RECURSIVE SortL0(_)
SortL0(S) == IF S = {} THEN <<>>
             ELSE LET m == CHOOSE x \in S : \A y \in S : y # x => L0Before(x, y) IN <<m.id>> \o SortL0(S \ {m})

\* runCompactDef's installation of the tables `outs` + the deferred cstatus.delete
Install(c, outs) ==
    /\ job[c] # NoJob
    /\ LET j == job[c]
           ins == {t \in tabs : t.id \in j.top \cup j.bot}
       IN /\ tabs' = (tabs \ ins) \cup outs
          /\ l0' = IF j.next = 0 THEN SortL0({t \in (tabs \ ins) \cup outs : t.lvl = 0})
                   ELSE SelectSeq(l0, LAMBDA i : i \notin j.top)
          /\ ranges' = IF j.this = j.next THEN [ranges EXCEPT ![0] = RemoveOne(@, Inf)]
                       ELSE [ranges EXCEPT ![j.this] = RemoveOne(@, j.thisRange),
                                           ![j.next] = RemoveOne(ranges[j.next], j.nextRange)]
          /\ busy' = busy \ (j.top \cup j.bot)
    /\ job' = [job EXCEPT ![c] = NoJob]
    /\ UNCHANGED <<prio, nextMv>>

\* one output table spanning the inputs; with Drops its weight may shrink (versions and deletion
\* markers annihilate) down to nothing at all
Finish(c) ==
    /\ job[c] # NoJob /\ nextId <= MaxId
    /\ LET j == job[c]
           ins == {t \in tabs : t.id \in j.top \cup j.bot}
           out(w) == [id |-> nextId, lvl |-> j.next, lo |-> Min({t.lo : t \in ins}), hi |-> Max({t.hi : t \in ins}),
                      mv |-> Max({t.mv : t \in ins}),
                      sv |-> Max({t.sv : t \in {u \in ins : u.lo = Min({x.lo : x \in ins})}}), w |-> w]
       IN \E w \in {SumW(ins)} \cup (IF Drops THEN {0, 1} ELSE {}) :
              Install(c, IF w = 0 THEN {} ELSE {out(w)})
    /\ nextId' = nextId + 1

Flush(lo, hi) ==
    /\ nextId <= MaxId /\ lo <= hi
    /\ tabs' = tabs \cup {[id |-> nextId, lvl |-> 0, lo |-> lo, hi |-> hi, mv |-> nextMv, sv |-> nextMv, w |-> 1]}
    /\ l0' = Append(l0, nextId)
    /\ nextId' = nextId + 1 /\ nextMv' = nextMv + 1
    /\ UNCHANGED <<ranges, busy, prio, job>>

Next == \/ \E c \in Compactors, l \in Levels, a \in BOOLEAN : Capture(c, l, a) \/ PickNow(c, l, a)
        \/ \E c \in Compactors : Fill(c) \/ Finish(c)
        \/ \E lo, hi \in Keys : Flush(lo, hi)

Spec == Init /\ [][Next]_vars

------------------------------------------------------------------------------
Jobs == {c \in Compactors : job[c] # NoJob}
\* compactStatus is exactly the union of what is in flight
StatusExact == busy = UNION {job[c].top \cup job[c].bot : c \in Jobs}
\* no table is an input of two compactions
InputsDisjoint == \A c, d \in Jobs : c # d => (job[c].top \cup job[c].bot) \cap (job[d].top \cup job[d].bot) = {}
\* inputs still exist when the compaction installs
InputsLive == \A c \in Jobs : job[c].top \cup job[c].bot \subseteq {t.id : t \in tabs}

\* C14: levels >= 1 hold tables with disjoint key ranges
Disjoint == \A l \in 1..MaxLevel : \A a, b \in TabsAt(l) : a # b => (a.hi < b.lo \/ b.hi < a.lo)

\* what a running compaction will write, and where
Span(c) == LET ins == {t \in tabs : t.id \in job[c].top \cup job[c].bot} IN RangeOf(ins)
\* ... never collides with another output to the same level, nor with a table that stays there
OutputSafe ==
    \A c \in Jobs : job[c].next >= 1 =>
        /\ \A d \in Jobs : d # c /\ job[d].next = job[c].next => ~Ovl(Span(c), Span(d))
        /\ \A t \in TabsAt(job[c].next) : t.id \notin job[c].bot => ~Ovl(Span(c), <<t.lo, t.hi>>)

\* C12: what an L0->Lbase compaction moves down (its level-0 inputs) does not jump over a table
\* (AgeOrdered of LSM.tla would break: newer versions below older ones)
TopSpan(c) == RangeOf({t \in tabs : t.id \in job[c].top})
NoJump == \A c \in Jobs : job[c].this = 0 /\ job[c].next >= 1 =>
              \A i \in 1..(job[c].next - 1) : \A t \in TabsAt(i) : ~Ovl(TopSpan(c), <<t.lo, t.hi>>)
=============================================================================
