----------------------------- MODULE VLogGCGen -----------------------------
(* Schedule generator for VLogGC: every step is recorded with what the contract (Ideal) says  *)
(* each read must return afterwards.  GCStart+GCScan and the write-back of all scanned records *)
(* are composite steps because the code offers no schedule point between them.                *)
EXTENDS VLogGC, Json
CONSTANT HistLen
VARIABLE hist
gvars == <<vars, hist>>
Room == Len(hist) < HistLen
RECURSIVE SeqOf(_)
SeqOf(S) == IF S = {} THEN <<>> ELSE LET x == CHOOSE y \in S : TRUE IN <<x>> \o SeqOf(S \ {x})
Expect == [discardTs |-> discardTs',
           unsettled |-> IF inflight' = NoFlight THEN [k |-> 0, ts |-> 0] ELSE [k |-> inflight'.k, ts |-> inflight'.ts],
           ideal |-> LET ks == SeqOf(Keys) IN [i \in 1..Len(ks) |-> [k |-> ks[i], at |-> [t \in 1..MaxTs |-> Ideal(ks[i], t)']]],
           held |-> SeqOf({[k |-> i.k, ts |-> i.ts] : i \in held'})]
H(op, k, f) == hist' = Append(hist, [op |-> op, k |-> k, f |-> f, exp |-> Expect])

\* composite GC steps, written out (rewrite() has no schedule point between start and scan, and
\* writes all scanned records back in one batchSet)
MovableIn(f, r) ==
    /\ Cands(r.k, r.ts) # {}
    /\ LET e == Top(r.k, r.ts) IN e.ts = r.ts /\ ~e.del /\ e.fid = f /\ e.slot = r.slot
    /\ (SafeWriteBack => ~\E e \in ents : e.k = r.k /\ e.ts > r.ts /\ e.ts <= discardTs)
GCStartScan(f) ==
    /\ gc.phase = "idle" /\ f \in files /\ f < maxFid /\ f \notin pendingDel
    /\ (SkipInFlightFile => f \notin InFlightFiles)
    /\ gc' = [phase |-> "scanned", fid |-> f, wb |-> {r \in recs[f] : MovableIn(f, r)}, gcDiscardTs |-> IF SafeWriteBack THEN discardTs ELSE MaxVersion]
    /\ UNCHANGED <<ents, files, recs, maxFid, pendingDel, iters, held, inflight, nextTs, discardTs, nextSeq, written>>
GCWriteBackAll ==
    /\ gc.phase = "scanned" /\ gc.wb # {} /\ inflight = NoFlight
    /\ LET s == SeqOf(gc.wb)
           base == Cardinality(recs[maxFid])
       IN /\ ents' = ents \cup {[k |-> s[i].k, ts |-> s[i].ts, del |-> FALSE, fid |-> maxFid, slot |-> base + i,
                                  seq |-> nextSeq + i - 1] : i \in 1..Len(s)}
          /\ recs' = [recs EXCEPT ![maxFid] = @ \cup {[k |-> s[i].k, ts |-> s[i].ts, slot |-> base + i] : i \in 1..Len(s)}]
          /\ nextSeq' = nextSeq + Len(s)
    /\ gc' = [gc EXCEPT !.wb = {}]
    /\ UNCHANGED <<files, maxFid, pendingDel, iters, held, inflight, nextTs, discardTs, written>>

GNext ==
    /\ Room
    /\ \/ \E k \in Keys : PutVlog(k) /\ H("putVlog", k, maxFid)
       \/ PutMem /\ H("putMem", 0, 0)
       \/ \E k \in Keys : Delete(k) /\ H("del", k, 0)
       \/ AdvanceDiscard /\ H("discard", 0, 0)
       \/ Compact /\ H("compact", 0, 0)
       \/ \E f \in Fids : GCStartScan(f) /\ H("gcScan", 0, f)
       \/ GCWriteBackAll /\ H("gcWriteBack", 0, 0)
       \/ GCDelete /\ H("gcDelete", 0, 0)
       \/ IterOpen /\ H("iterOpen", 0, 0)
       \/ IterClose /\ H("iterClose", 0, 0)
       \/ \E k \in Keys : TxnGet(k) /\ H("txnGet", k, 0)
       \/ TxnEnd /\ H("txnEnd", 0, 0)
GInit == Init /\ hist = <<>>
GenSpec == GInit /\ [][GNext]_gvars
Emit == Len(hist) = HistLen => PrintT(<<"CASE", ToJson(hist)>>)
=============================================================================
