----------------------------- MODULE LSMInstall -----------------------------
(***************************************************************************)
(* The non-atomic installation of a compaction result and a point read     *)
(* that runs concurrently with it.                                         *)
(*                                                                         *)
(* runCompactDef (levels.go) installs in two steps, in this order:         *)
(*     nextLevel.replaceTables(bot, newTables)     -- Replace              *)
(*     thisLevel.deleteTables(top)                 -- Delete               *)
(* levelsController.get visits the levels from 0 upward, one at a time,    *)
(* taking each level's lock only while it reads that level -- ReadStep.    *)
(* Between Replace and Delete a version can be present twice (old table    *)
(* above, new table below); that is harmless because the read keeps the    *)
(* largest version.  What must never happen is that a read misses a        *)
(* version because it looked at the upper level after Delete and at the    *)
(* lower level before Replace: the order of the two steps together with    *)
(* the top-down order of the read excludes it.  (InstallOrder = "code" is  *)
(* what the code does; "swapped" is the hazardous order, kept so that the  *)
(* model shows the invariant is not vacuous.)                              *)
(***************************************************************************)
EXTENDS LSM

CONSTANT InstallOrder      \* "code" | "swapped"

VARIABLES comp,   \* compaction in flight: [phase, from, to, top, bot, out]
          rd      \* point read in flight: [phase, k, ts, next, best]

ivars == <<vars, comp, rd>>
NoComp == [phase |-> "none", from |-> 0, to |-> 0, top |-> {}, bot |-> {}, out |-> {}]
NoRead == [phase |-> "idle", k |-> 0, ts |-> 0, next |-> 0, best |-> 0]

IInit == Init /\ comp = NoComp /\ rd = NoRead

\* ---- setup steps (atomic, only while no compaction is in flight)
\* writes and watermark moves happen only while no read is in flight: the oracle admits a reader at
\* ts only after every commit <= ts has been applied, and the watermark never passes an active reader
Setup == \/ /\ rd.phase = "idle" /\ comp.phase = "none"
            /\ ((\E k \in Keys, kind \in Kinds : Put(k, kind)) \/ AdvanceDiscard)
            /\ UNCHANGED <<comp, rd>>
         \/ /\ (Rotate \/ Flush)          \* memtable rotation and flush may interleave with everything
            /\ UNCHANGED <<comp, rd>>

\* ---- a compaction: pick + build (the new tables exist but are not installed)
LevelTables(i) == IF i = 0 THEN L0set ELSE lv[i]
Build0(b) ==
    /\ comp.phase = "none" /\ Len(L0) > 0 /\ CanBeBase(b) /\ nextId <= MaxId
    /\ LET n == Prefix(1, {})
           top == {L0[i] : i \in 1..n}
           bot == {t \in lv[b] : Ovl(Ents(top), t.ents)}
           all == Ents(top) \cup Ents(bot)
           out == Out(all, OverlapBelow(all, b + 1), discardTs)
       IN comp' = [phase |-> "built", from |-> 0, to |-> b, top |-> top, bot |-> bot,
                   out |-> IF out = {} THEN {} ELSE {NewTable(out, FALSE)}]
    /\ nextId' = nextId + 1
    /\ UNCHANGED <<mt, imm, L0, lv, nextTs, discardTs, written, rd>>
BuildDown(i) ==
    /\ comp.phase = "none" /\ i \in Levels /\ i < MaxLevel /\ nextId <= MaxId
    /\ \E t \in lv[i] :
         LET bot == {b \in lv[i + 1] : Ovl(t.ents, b.ents)}
             all == t.ents \cup Ents(bot)
             out == Out(all, OverlapBelow(all, i + 2), discardTs)
         IN comp' = [phase |-> "built", from |-> i, to |-> i + 1, top |-> {t}, bot |-> bot,
                     out |-> IF out = {} THEN {} ELSE {NewTable(out, FALSE)}]
    /\ nextId' = nextId + 1
    /\ UNCHANGED <<mt, imm, L0, lv, nextTs, discardTs, written, rd>>

RemoveFrom(i, tabs) ==
    IF i = 0 THEN /\ L0' = SelectSeq(L0, LAMBDA t : t \notin tabs) /\ UNCHANGED lv
    ELSE /\ lv' = [lv EXCEPT ![i] = @ \ tabs] /\ UNCHANGED L0
ReplaceIn(i, del, add) == lv' = [lv EXCEPT ![i] = (@ \ del) \cup add] /\ UNCHANGED L0

First == IF InstallOrder = "code" THEN "replace" ELSE "delete"
StepOne ==
    /\ comp.phase = "built"
    /\ IF First = "replace" THEN ReplaceIn(comp.to, comp.bot, comp.out) ELSE RemoveFrom(comp.from, comp.top)
    /\ comp' = [comp EXCEPT !.phase = "half"]
    /\ UNCHANGED <<mt, imm, nextTs, discardTs, nextId, written, rd>>
StepTwo ==
    /\ comp.phase = "half"
    /\ IF First = "replace" THEN RemoveFrom(comp.from, comp.top) ELSE ReplaceIn(comp.to, comp.bot, comp.out)
    /\ comp' = NoComp
    /\ UNCHANGED <<mt, imm, nextTs, discardTs, nextId, written, rd>>

\* ---- a point read, one level per step (memtables are read first, atomically with the start)
MemBest(k, ts) == LET c == Cand(mt, k, ts) \cup UNION {Cand(imm[i], k, ts) : i \in DOMAIN imm} IN
                  IF c = {} THEN 0 ELSE (CHOOSE e \in c : \A f \in c : f.ts <= e.ts).ts
LevelBest(i, k, ts) ==
    LET c == IF i = 0 THEN UNION {Cand(L0[j].ents, k, ts) : j \in DOMAIN L0} ELSE LevelCand(i, k, ts) IN
    IF c = {} THEN 0 ELSE (CHOOSE e \in c : \A f \in c : f.ts <= e.ts).ts
ReadStart(k, ts) ==
    /\ rd.phase = "idle" /\ ts >= discardTs /\ ts >= 1
    /\ rd' = [phase |-> "reading", k |-> k, ts |-> ts, next |-> 0, best |-> MemBest(k, ts)]
    /\ UNCHANGED <<vars, comp>>
ReadStep ==
    /\ rd.phase = "reading" /\ rd.next <= MaxLevel
    /\ LET b == LevelBest(rd.next, rd.k, rd.ts) IN
       rd' = [rd EXCEPT !.next = @ + 1, !.best = IF b > @ THEN b ELSE @]
    /\ UNCHANGED <<vars, comp>>
ReadEnd ==
    /\ rd.phase = "reading" /\ rd.next > MaxLevel
    /\ rd' = [rd EXCEPT !.phase = "done"]
    /\ UNCHANGED <<vars, comp>>
ReadReset == rd.phase = "done" /\ rd' = NoRead /\ UNCHANGED <<vars, comp>>

INext == Setup \/ (\E b \in Levels : Build0(b)) \/ (\E i \in Levels : BuildDown(i)) \/ StepOne \/ StepTwo
         \/ (\E k \in Keys, ts \in 1..MaxTs : ReadStart(k, ts)) \/ ReadStep \/ ReadEnd \/ ReadReset
ISpec == IInit /\ [][INext]_ivars

\* the version a finished read found (0 = none) is the newest written version at or below its
\* timestamp - whether that version is a value or a deletion marker
NewestTs(k, ts) == LET c == {e \in written : e.k = k /\ e.ts <= ts} IN
                   IF c = {} THEN 0 ELSE (CHOOSE e \in c : \A f \in c : f.ts <= e.ts).ts
\* writes made while the read is in flight may or may not be seen: the read's answer must lie between
\* what was there when it started and what is there now; with Setup excluded while reading it is exact
ReadCorrect == rd.phase = "done" =>
    \/ rd.best = NewestTs(rd.k, rd.ts)
    \/ (LET e == CHOOSE x \in written : x.k = rd.k /\ x.ts = NewestTs(rd.k, rd.ts) IN
        \* the newest version may have been dropped legitimately only if it is a deletion marker
        \* at or below the watermark with nothing older left
        e.kind = "del" /\ e.ts <= discardTs /\ rd.best = 0)
=============================================================================
