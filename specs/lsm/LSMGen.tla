------------------------------- MODULE LSMGen -------------------------------
(***************************************************************************)
(* Case generator for LSM: every compaction transition TLC takes is        *)
(* printed as one implementation test ("state injection"): the layout      *)
(* before, the compaction family, the layout after and the reads the       *)
(* specification predicts afterwards.  The Go harness builds the layout    *)
(* with the production table builder, runs the ONE production compaction   *)
(* and compares.                                                           *)
(***************************************************************************)
EXTENDS LSM, Json

CONSTANTS Wide,     \* 0: start empty; N > 0: start with N single-key tables k1..kN (versions 1..N) on the last
                    \* level - the layout N flushes of one key each, each followed by an L0->Lbase
                    \* compaction, produce - so that compactions with many bottom tables (split
                    \* sub-compactions) are reached within the bound
          L0Hold,   \* shaping: L0->Lbase is offered only once level 0 holds this many tables
          MtMax     \* shaping: the memtable is rotated before it holds more entries than this
VARIABLE act
gvars == <<vars, act>>

RECURSIVE SeqOfSet(_)
SeqOfSet(S) == IF S = {} THEN <<>> ELSE LET x == CHOOSE y \in S : TRUE IN <<x>> \o SeqOfSet(S \ {x})
EntSeq(es) == LET s == SeqOfSet(es) IN [i \in 1..Len(s) |-> [k |-> s[i].k, ts |-> s[i].ts, kind |-> s[i].kind]]
Tab(t) == [id |-> t.id, ents |-> EntSeq(t.ents), big |-> t.big, aged |-> t.aged]
TabSeq(S) == LET s == SeqOfSet(S) IN [i \in 1..Len(s) |-> Tab(s[i])]
Layout(m, l0, lvv, d) ==
    [mt |-> EntSeq(m), L0 |-> [i \in 1..Len(l0) |-> Tab(l0[i])],
     lv |-> [i \in 1..MaxLevel |-> TabSeq(lvv[i])], discardTs |-> d]
Reads == LET ks == SeqOfSet(Keys) IN
         [i \in 1..Len(ks) |-> [k |-> ks[i], at |-> [ts \in 1..(MaxTs + 1) |-> Get(ks[i], ts - 1).ts]]]

A(name, arg) == act' = [name |-> name, arg |-> arg]

GNext ==
    \/ \E k \in Keys, kind \in Kinds : Cardinality(mt) < MtMax /\ Put(k, kind) /\ A("put", 0)
    \/ Rotate /\ A("rotate", 0)
    \/ Flush /\ A("flush", 0)
    \/ TimePasses /\ A("time", 0)
    \/ AdvanceDiscard /\ A("discard", 0)
    \/ \E b \in Levels : Len(L0) >= L0Hold /\ L0ToBase(b) /\ A("L0ToBase", b)
    \/ L0ToL0 /\ A("L0ToL0", 0)
    \/ \E i \in Levels : LevelDown(i) /\ A("LevelDown", i)
    \/ LmaxRewrite /\ A("LmaxRewrite", 0)

WideInit ==
    /\ mt = {} /\ imm = <<>> /\ L0 = <<>>
    /\ lv = [i \in Levels |-> IF i = MaxLevel
                              THEN {[id |-> k, ents |-> {[k |-> k, ts |-> k, kind |-> "val"]}, big |-> FALSE, aged |-> TRUE] : k \in 1..Wide}
                              ELSE {}]
    /\ nextTs = Wide + 1 /\ discardTs = 0 /\ nextId = Wide + 1
    /\ written = {[k |-> k, ts |-> k, kind |-> "val"] : k \in 1..Wide}
GInit == (IF Wide = 0 THEN Init ELSE WideInit) /\ act = [name |-> "init", arg |-> 0]
GenSpec == GInit /\ [][GNext]_gvars

\* evaluated on every transition; imm must be empty in the pre-state because the harness
\* cannot hold immutable memtables (the production flusher drains them)
IsCompaction == act'.name \in {"L0ToBase", "L0ToL0", "LevelDown"}
PrintCase ==
    (IsCompaction /\ imm = <<>>) =>
        PrintT(<<"CASE", ToJson([fam |-> act'.name, arg |-> act'.arg,
                                 pre |-> Layout(mt, L0, lv, discardTs),
                                 post |-> Layout(mt', L0', lv', discardTs'),
                                 reads |-> Reads', harm |-> ~ReadStable'])>>)
View == vars
=============================================================================
