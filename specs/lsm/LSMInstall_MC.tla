---- MODULE LSMInstall_MC ----
EXTENDS LSMInstall
====
