---- MODULE Compactors_MC ----
EXTENDS Compactors
====
