SPECIFICATION ISpec
CONSTANTS
  Keys = {1, 2}
  MaxTs = 3
  MaxLevel = 2
  MinL0L0 = 2
  NVK = 1
  Kinds = {"val", "del"}
  L0L0KeepsTombstones = TRUE
  BaseSkip = "none"
  MaxId = 5
  InstallOrder = "code"
INVARIANTS ReadCorrect
