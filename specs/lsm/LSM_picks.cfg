SPECIFICATION Spec
CONSTANTS
  Keys = {1, 2}
  MaxTs = 4
  MaxLevel = 2
  MinL0L0 = 2
  NVK = 1
  Kinds = {"val", "del"}
  L0L0KeepsTombstones = TRUE
  BaseSkip = "none"
  MaxId = 7
INVARIANTS ReadStable Retention Structure NoInvention
