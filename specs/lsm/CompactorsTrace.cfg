SPECIFICATION TSpec
CONSTANTS
  Keys = {1, 2, 3, 4}
  MaxLevel = 2
  Compactors = {0, 1, 2}
  MinL0L0 = 4
  MaxId = 1000000
  StaleTargets = TRUE
  BaseSize = 6000
  Mult = 2
  FillChecks = TRUE
  Drops = TRUE
  Clamp = TRUE
INVARIANTS Conforms StatusExact InputsDisjoint InputsLive Disjoint OutputSafe NoJump
CONSTRAINT HighWater
POSTCONDITION Accepted
CHECK_DEADLOCK FALSE
