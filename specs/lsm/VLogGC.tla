------------------------------- MODULE VLogGC -------------------------------
(***************************************************************************)
(* Value log and its garbage collection (value.go: write, rewrite,         *)
(* deleteLogFile, incr/decrIteratorCount; levels.go: the gcDiscardTs clamp *)
(* in subcompact; db.go: writeRequests = vlog.write then writeToLSM).      *)
(*                                                                         *)
(* The LSM tree is abstracted to a set of physical entries (one level,     *)
(* nothing below it): Compact applies the retention rule of a compaction   *)
(* with hasOverlap = FALSE.  Values live in value-log files; an entry      *)
(* points to <<fid, slot>>.  Two copies of the same k@ts can exist (GC     *)
(* write-back re-inserts k@ts with a pointer to the newest file); the      *)
(* later copy (larger seq) takes precedence here - the level-0 ordering    *)
(* hazards for duplicates are outside this module.                         *)
(*                                                                         *)
(*   PutVlog / PutMem     one request: vlog.write, then writeToLSM         *)
(*   Delete               tombstone (no value-log record)                  *)
(*   Compact              compaction with the (possibly clamped) watermark *)
(*   GCStart/GCScan/GCWriteBack/GCDelete   valueLog.rewrite in four steps  *)
(*   IterOpen/IterClose   vlog.incrIteratorCount / decrIteratorCount       *)
(*   TxnGet / TxnEnd      an item obtained by Txn.Get stays in use         *)
(***************************************************************************)
EXTENDS Integers, Sequences, FiniteSets, TLC

CONSTANTS Keys, MaxTs,
          FileCap,          \* records after which the value log rotates (ValueLogMaxEntries + 1)
          MaxFiles,
          CountGetItems,    \* TRUE: items from Txn.Get defer file deletion like iterators do (intended)
          SkipInFlightFile, \* TRUE: GC does not touch a file that an in-flight request wrote to (intended)
          SafeWriteBack     \* TRUE (a design under which ReadStable holds): while a rewrite is in flight
                            \* compactions use the discard watermark captured at its start, and the scan
                            \* does not move a record that a newer version of its key at or below that
                            \* watermark shadows for every legal reader.  FALSE (the code):
                            \* the clamp is the max version at start (#2286) and every scanned record is
                            \* written back

VARIABLES ents,        \* physical entries [k, ts, del, fid, slot, seq]   (fid = 0: no value)
          files,       \* value-log files that exist
          recs,        \* [fid -> set of records [k, ts, slot]] ever written to the file
          maxFid,
          pendingDel,  \* filesToBeDeleted
          iters,       \* number of open iterators
          held,        \* items of open transactions obtained by Txn.Get: set of [k, ts, fid, slot]
          inflight,    \* request between vlog.write and writeToLSM: NoFlight or [k, ts, fid, slot]
          gc,          \* [phase, fid, wb, gcDiscardTs]
          nextTs, discardTs, nextSeq,
          written      \* ghost: every acknowledged or in-flight write [k, ts, del]

vars == <<ents, files, recs, maxFid, pendingDel, iters, held, inflight, gc, nextTs, discardTs, nextSeq, written>>

NoFlight == [k |-> 0, ts |-> 0, fid |-> 0, slot |-> 0]
NoGC == [phase |-> "idle", fid |-> 0, wb |-> {}, gcDiscardTs |-> 0]
Fids == 1..MaxFiles

Init ==
    /\ ents = {} /\ files = {1} /\ recs = [f \in Fids |-> {}] /\ maxFid = 1
    /\ pendingDel = {} /\ iters = 0 /\ held = {} /\ inflight = NoFlight /\ gc = NoGC
    /\ nextTs = 1 /\ discardTs = 0 /\ nextSeq = 1 /\ written = {}

\* ---------------------------------------------------------------- reads
Cands(k, ts) == {e \in ents : e.k = k /\ e.ts <= ts}
\* newest version, and among copies of the same version the latest one
Top(k, ts) == CHOOSE e \in Cands(k, ts) : \A f \in Cands(k, ts) : f.ts < e.ts \/ (f.ts = e.ts /\ f.seq <= e.seq)
Ideal(k, ts) == LET c == {w \in written : w.k = k /\ w.ts <= ts} IN
                IF c = {} THEN 0
                ELSE LET t == CHOOSE w \in c : \A x \in c : x.ts <= w.ts IN IF t.del THEN 0 ELSE t.ts
\* what Get returns: 0 = not found, ts = found with a readable value, -1 = found but the
\* value-log file is gone (the code returns an empty value and a nil error)
GetRes(k, ts) == IF Cands(k, ts) = {} THEN 0
                 ELSE LET e == Top(k, ts) IN
                      IF e.del THEN 0 ELSE IF e.fid \in files THEN e.ts ELSE -1

\* ---------------------------------------------------------------- writes
Slot(f) == Cardinality(recs[f]) + 1
PutVlog(k) ==
    /\ nextTs <= MaxTs /\ inflight = NoFlight
    /\ LET r == [k |-> k, ts |-> nextTs, fid |-> maxFid, slot |-> Slot(maxFid)] IN
       /\ recs' = [recs EXCEPT ![maxFid] = @ \cup {[k |-> k, ts |-> nextTs, slot |-> Slot(maxFid)]}]
       /\ inflight' = r
       \* toDisk: rotate once the file holds FileCap records
       /\ IF Slot(maxFid) >= FileCap /\ maxFid < MaxFiles
          THEN maxFid' = maxFid + 1 /\ files' = files \cup {maxFid + 1}
          ELSE UNCHANGED <<maxFid, files>>
    /\ written' = written \cup {[k |-> k, ts |-> nextTs, del |-> FALSE]}
    /\ nextTs' = nextTs + 1
    /\ UNCHANGED <<ents, pendingDel, iters, held, gc, discardTs, nextSeq>>

PutMem ==
    /\ inflight # NoFlight
    /\ ents' = ents \cup {[k |-> inflight.k, ts |-> inflight.ts, del |-> FALSE, fid |-> inflight.fid,
                           slot |-> inflight.slot, seq |-> nextSeq]}
    /\ nextSeq' = nextSeq + 1 /\ inflight' = NoFlight
    /\ UNCHANGED <<files, recs, maxFid, pendingDel, iters, held, gc, nextTs, discardTs, written>>

Delete(k) ==
    /\ nextTs <= MaxTs /\ inflight = NoFlight
    /\ ents' = ents \cup {[k |-> k, ts |-> nextTs, del |-> TRUE, fid |-> 0, slot |-> 0, seq |-> nextSeq]}
    /\ written' = written \cup {[k |-> k, ts |-> nextTs, del |-> TRUE]}
    /\ nextTs' = nextTs + 1 /\ nextSeq' = nextSeq + 1
    /\ UNCHANGED <<files, recs, maxFid, pendingDel, iters, held, inflight, gc, discardTs>>

AdvanceDiscard ==
    /\ \E d \in (discardTs + 1)..(nextTs - 1) : discardTs' = d
    /\ UNCHANGED <<ents, files, recs, maxFid, pendingDel, iters, held, inflight, gc, nextTs, nextSeq, written>>

\* compaction of everything (NumVersionsToKeep = 1, no level below): per key, versions at or below
\* the effective watermark are reduced to the newest one, and dropped altogether if that is a delete;
\* duplicates of one version are reduced to the latest copy.  While a rewrite is in flight the
\* watermark is clamped to gcDiscardTs (#2286).
EffDiscard == IF gc.phase # "idle" /\ (SafeWriteBack \/ gc.gcDiscardTs > 0) /\ gc.gcDiscardTs < discardTs
              THEN gc.gcDiscardTs ELSE discardTs
KeepKey(k) ==
    LET es == {e \in ents : e.k = k}
        dedup == {e \in es : \A f \in es : f.ts = e.ts => f.seq <= e.seq}
        below == {e \in dedup : e.ts <= EffDiscard}
    IN IF below = {} THEN dedup
       ELSE LET top == CHOOSE e \in below : \A f \in below : f.ts <= e.ts IN
            (dedup \ below) \cup (IF top.del THEN {} ELSE {top})
Compact ==
    /\ ents' = UNION {KeepKey(k) : k \in Keys}
    /\ ents' # ents
    /\ UNCHANGED <<files, recs, maxFid, pendingDel, iters, held, inflight, gc, nextTs, discardTs, nextSeq, written>>

\* ---------------------------------------------------------------- value-log GC (rewrite)
MaxVersion == IF ents = {} THEN 0 ELSE LET e == CHOOSE x \in ents : \A y \in ents : y.ts <= x.ts IN e.ts
InFlightFiles == IF inflight = NoFlight THEN {} ELSE {inflight.fid}

GCStart(f) ==
    /\ gc.phase = "idle" /\ f \in files /\ f < maxFid /\ f \notin pendingDel
    /\ (SkipInFlightFile => f \notin InFlightFiles)
    /\ gc' = [phase |-> "started", fid |-> f, wb |-> {}, gcDiscardTs |-> IF SafeWriteBack THEN discardTs ELSE MaxVersion]
    /\ UNCHANGED <<ents, files, recs, maxFid, pendingDel, iters, held, inflight, nextTs, discardTs, nextSeq, written>>

\* the scan: a record is moved iff the tree's entry for exactly that k@ts still points at it
Movable(r) ==
    /\ Cands(r.k, r.ts) # {}
    /\ LET e == Top(r.k, r.ts) IN e.ts = r.ts /\ ~e.del /\ e.fid = gc.fid /\ e.slot = r.slot
    \* safe design: a record shadowed, for every legal reader, by a newer version at or below the
    \* watermark captured at the start is garbage and is not moved
    /\ (SafeWriteBack => ~\E e \in ents : e.k = r.k /\ e.ts > r.ts /\ e.ts <= gc.gcDiscardTs)
GCScan ==
    /\ gc.phase = "started"
    /\ gc' = [gc EXCEPT !.phase = "scanned", !.wb = {r \in recs[gc.fid] : Movable(r)}]
    /\ UNCHANGED <<ents, files, recs, maxFid, pendingDel, iters, held, inflight, nextTs, discardTs, nextSeq, written>>

\* write-back of one record: k@ts again, now pointing into the newest file
GCWriteBack ==
    /\ gc.phase = "scanned" /\ gc.wb # {} /\ inflight = NoFlight
    /\ \E r \in gc.wb :
         /\ ents' = ents \cup {[k |-> r.k, ts |-> r.ts, del |-> FALSE, fid |-> maxFid, slot |-> Slot(maxFid), seq |-> nextSeq]}
         /\ recs' = [recs EXCEPT ![maxFid] = @ \cup {[k |-> r.k, ts |-> r.ts, slot |-> Slot(maxFid)]}]
         /\ gc' = [gc EXCEPT !.wb = @ \ {r}]
    /\ nextSeq' = nextSeq + 1
    /\ UNCHANGED <<files, maxFid, pendingDel, iters, held, inflight, nextTs, discardTs, written>>

Protected == iters > 0 \/ (CountGetItems /\ \E i \in held : i.fid = gc.fid)
GCDelete ==
    /\ gc.phase = "scanned" /\ gc.wb = {}
    /\ IF Protected THEN pendingDel' = pendingDel \cup {gc.fid} /\ UNCHANGED files
       ELSE files' = files \ {gc.fid} /\ UNCHANGED pendingDel
    /\ gc' = NoGC
    /\ UNCHANGED <<ents, recs, maxFid, iters, held, inflight, nextTs, discardTs, nextSeq, written>>

\* ---------------------------------------------------------------- readers that hold on to values
IterOpen == /\ iters < 1 /\ iters' = iters + 1
            /\ UNCHANGED <<ents, files, recs, maxFid, pendingDel, held, inflight, gc, nextTs, discardTs, nextSeq, written>>
StillHeld(f) == CountGetItems /\ \E i \in held : i.fid = f
IterClose == /\ iters > 0 /\ iters' = iters - 1
             /\ IF iters = 1 THEN /\ files' = files \ {f \in pendingDel : ~StillHeld(f)}
                                  /\ pendingDel' = {f \in pendingDel : StillHeld(f)}
                ELSE UNCHANGED <<files, pendingDel>>
             /\ UNCHANGED <<ents, recs, maxFid, held, inflight, gc, nextTs, discardTs, nextSeq, written>>
TxnGet(k) ==
    /\ Cardinality(held) < 1 /\ Cands(k, nextTs) # {}
    /\ LET e == Top(k, nextTs) IN
       /\ ~e.del /\ e.fid \in files
       /\ held' = held \cup {[k |-> e.k, ts |-> e.ts, fid |-> e.fid, slot |-> e.slot]}
    /\ UNCHANGED <<ents, files, recs, maxFid, pendingDel, iters, inflight, gc, nextTs, discardTs, nextSeq, written>>
TxnEnd ==
    /\ held # {} /\ held' = {}
    /\ IF iters = 0 THEN files' = files \ pendingDel /\ pendingDel' = {} ELSE UNCHANGED <<files, pendingDel>>
    /\ UNCHANGED <<ents, recs, maxFid, iters, inflight, gc, nextTs, discardTs, nextSeq, written>>

Next ==
    \/ \E k \in Keys : PutVlog(k) \/ Delete(k) \/ TxnGet(k)
    \/ PutMem \/ AdvanceDiscard \/ Compact
    \/ \E f \in Fids : GCStart(f)
    \/ GCScan \/ GCWriteBack \/ GCDelete
    \/ IterOpen \/ IterClose \/ TxnEnd

Spec == Init /\ [][Next]_vars

-----------------------------------------------------------------------------
\* C15: GC (with compactions and writes around it) never changes what a read at or above the
\* watermark returns, never resurrects a deleted key, never leaves a dangling pointer.  A write
\* that is still in flight (not acknowledged) may or may not be visible yet.
Settled(k, ts) == inflight = NoFlight \/ inflight.k # k \/ inflight.ts > ts
ReadStable == \A k \in Keys, ts \in discardTs..MaxTs : Settled(k, ts) => GetRes(k, ts) = Ideal(k, ts)
\* a value stays readable through the items of any still-open transaction
ItemReadable == \A i \in held : i.fid \in files
=============================================================================
