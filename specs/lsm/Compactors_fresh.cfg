SPECIFICATION Spec
CONSTANTS
  Keys = {1, 2}
  MaxLevel = 2
  Compactors = {0, 1}
  MinL0L0 = 2
  MaxId = 8
  StaleTargets = FALSE
  BaseSize = 1
  Mult = 2
  FillChecks = FALSE
  Drops = TRUE
  Clamp = TRUE
INVARIANTS StatusExact InputsDisjoint InputsLive Disjoint OutputSafe NoJump
