-------------------------- MODULE CompactorsTrace --------------------------
(***************************************************************************)
(* Trace validation of concurrently running production compactions         *)
(* (harness/cmd/csreplay) against Compactors.tla.  Every logged step must   *)
(* be the step the specification takes from its own state: the base level   *)
(* levelTargets computed (transcribed in BaseLevel), the tables a           *)
(* compaction picked, the compactStatus ranges and tables, the level-0      *)
(* order after an installation.  What a compaction writes (how many tables, *)
(* which keys survive) is taken from the log and only constrained: on the   *)
(* output level, inside the span of the inputs.  The invariants of          *)
(* Compactors.tla are evaluated in every state of the accepted trace.       *)
(***************************************************************************)
EXTENDS Compactors, Json

Trace == ndJsonDeserialize("trace.ndjson")

VARIABLES l, bad
tvars == <<tabs, l0, ranges, busy, prio, job, nextId, nextMv, l, bad>>
Ev == Trace[l]

SetOf(s) == {s[i] : i \in DOMAIN s}
Tab(t) == [id |-> t.id, lvl |-> t.lvl, lo |-> t.lo, hi |-> t.hi, mv |-> t.mv, sv |-> t.sv, w |-> t.w]
LoggedTabs == {Tab(t) : t \in SetOf(Ev.tabs)}
LoggedRange(r) == IF r = <<-1, -1>> THEN Inf ELSE IF r = <<0, 0>> THEN Empty ELSE r
LoggedRanges == [lv \in Levels |-> [i \in DOMAIN Ev.ranges[lv + 1] |-> LoggedRange(Ev.ranges[lv + 1][i])]]

\* the first difference between the specification's next state and the logged state
Diff == IF tabs' # LoggedTabs THEN "TablesMismatch"
        ELSE IF l0' # Ev.l0 THEN "Level0OrderMismatch"
        ELSE IF busy' # SetOf(Ev.busy) THEN "StatusTablesMismatch"
        ELSE IF ranges' # LoggedRanges THEN "StatusRangesMismatch"
        ELSE "none"
Judge(first) == bad' = IF bad # "none" THEN bad ELSE IF first # "none" THEN first ELSE Diff

TInit == /\ TLCSet(1, 0) /\ l = 1 /\ bad = "none" /\ Init

TReset == /\ Ev.ev = "reset"
          /\ tabs' = {} /\ l0' = <<>> /\ ranges' = [lv \in Levels |-> <<>>] /\ busy' = {}
          /\ prio' = [c \in Compactors |-> NoPrio] /\ job' = [c \in Compactors |-> NoJob]
          /\ UNCHANGED <<nextId, nextMv, bad>>

TFlush == /\ Ev.ev = "flush"
          /\ UNCHANGED <<ranges, busy, prio, job, nextId, nextMv>>
          /\ LET new == LoggedTabs \ tabs IN
             /\ tabs' = tabs \cup new
             /\ l0' = IF Cardinality(new) = 1 THEN Append(l0, (CHOOSE t \in new : TRUE).id) ELSE l0
             /\ Judge(IF Cardinality(new) # 1 \/ \E t \in new : t.lvl # 0 THEN "FlushNotOneLevel0Table" ELSE "none")

TCapture == /\ Ev.ev = "capture"
            /\ Capture(Ev.c, Ev.level, Ev.adjok)
            /\ Judge(IF [lv \in Levels |-> Ev.sizes[lv + 1]] # Sizes THEN "LevelSizesMismatch"
                     ELSE IF prio'[Ev.c].base # Ev.base THEN "BaseLevelMismatch" ELSE "none")

TFill == /\ Ev.ev = "fill"
         /\ Fill(Ev.c)
         /\ Judge(IF Ev.picked
                  THEN (IF job'[Ev.c] = NoJob THEN "PickedButSpecRefuses"
                        ELSE IF job'[Ev.c].this # Ev.this \/ job'[Ev.c].next # Ev.next THEN "PickLevelsMismatch"
                        ELSE IF job'[Ev.c].top # SetOf(Ev.top) THEN "PickTopMismatch"
                        ELSE IF job'[Ev.c].bot # SetOf(Ev.bot) THEN "PickBotMismatch"
                        ELSE "none")
                  ELSE (IF job'[Ev.c] # NoJob THEN "RefusedButSpecPicks" ELSE "none"))

TFinish == /\ Ev.ev = "finish"
           /\ LET j == job[Ev.c]
                  ins == {t \in tabs : t.id \in j.top \cup j.bot}
                  outs == {t \in LoggedTabs : t.id \in SetOf(Ev.outs)}
              IN /\ Install(Ev.c, outs)
                 /\ Judge(IF "validate" \in DOMAIN Ev THEN "ValidateFailed"
                          ELSE IF \E t \in outs : t.lvl # j.next THEN "OutputOnWrongLevel"
                          ELSE IF \E t \in outs : t.lo < Min({u.lo : u \in ins}) \/ t.hi > Max({u.hi : u \in ins})
                               THEN "OutputOutsideInputs"
                          ELSE "none")
           /\ UNCHANGED nextId

TOther == /\ Ev.ev \notin {"reset", "flush", "capture", "fill", "finish"}
          /\ UNCHANGED <<vars, bad>>

TNext == l <= Len(Trace) /\ l' = l + 1 /\ (TReset \/ TFlush \/ TCapture \/ TFill \/ TFinish \/ TOther)
TSpec == TInit /\ [][TNext]_tvars

HighWater == IF l > TLCGet(1) THEN TLCSet(1, l) ELSE TRUE
Conforms == bad = "none"
Accepted == IF TLCGet(1) = Len(Trace) + 1 THEN TRUE ELSE PrintT(<<"REJECTED_AT", TLCGet(1)>>) /\ FALSE
=============================================================================
