-------------------------------- MODULE LSM --------------------------------
(***************************************************************************)
(* The LSM tree of badger: memtables, level 0 (a sequence, in the order of *)
(* levelHandler.tables), levels >= 1 (disjoint tables), the compaction     *)
(* pickers and the version-retention rules of a sub-compaction, and the    *)
(* read path.  It models what the code does:                               *)
(*                                                                         *)
(*   Put / Rotate / Flush        db.go writeToLSM, ensureRoomForWrite,     *)
(*                               handleMemTableFlush, addLevel0Table       *)
(*   L0ToBase                    levels.go fillTablesL0ToLbase (+ install) *)
(*   L0ToL0                      levels.go fillTablesL0ToL0; the output is *)
(*                               placed by replaceTables, which re-sorts   *)
(*                               level 0 by smallest key                   *)
(*   LevelDown(i)                levels.go fillTables (one table + the     *)
(*                               overlapping tables of the next level)     *)
(*   LmaxRewrite                 levels.go fillMaxLevelTables              *)
(*   Keep(...)                   levels.go subcompact/addKeys              *)
(*   Get(k, ts)                  db.go get + levels.go get +               *)
(*                               level_handler.go get                      *)
(*                                                                         *)
(* Compactions are atomic here (pick + build + install in one step); the   *)
(* two-step install with concurrent readers is LSMInstall.tla.             *)
(***************************************************************************)
EXTENDS Integers, Sequences, FiniteSets, TLC

CONSTANTS Keys,        \* 1..NKeys
          MaxTs,       \* number of writes
          MaxLevel,    \* levels are 0..MaxLevel
          MinL0L0,     \* tables needed for an L0->L0 compaction (4 in the code)
          NVK,         \* Options.NumVersionsToKeep
          Kinds,       \* subset of {"val", "del", "exp", "disc", "merge"}: what Put may write
          L0L0KeepsTombstones,   \* TRUE: an L0->L0 compaction always keeps deletion markers (the
                                 \* repaired code); FALSE: only when a lower level overlaps (the
                                 \* code before the repair, which loses them - see DESIGN section 7)
          BaseSkip,    \* levelTargets derives the base level from level sizes.
                       \* "none": it is never below a non-empty level (the repaired code: clamp at
                       \*   the first non-empty level);
                       \* "skip": when the last level shrinks it returns to a lower level while
                       \*   tables still sit in the levels above it, and L0->Lbase jumps over them
                       \*   (the code before the repair: ReadStable fails, DESIGN section 9.4);
                       \* "checked": as "skip", but subcompact counts the skipped levels as
                       \*   overlapping - a repair that was considered and that TLC refutes (the
                       \*   kept marker now lies below the older version and a last-level rewrite
                       \*   drops it)
          MaxId        \* bound on table ids (model constraint)

VARIABLES mt, imm, L0, lv, nextTs, discardTs, nextId, written

vars == <<mt, imm, L0, lv, nextTs, discardTs, nextId, written>>

Levels == 1..MaxLevel
Absent == [found |-> FALSE, ts |-> 0]

Ents(tabs) == UNION {t.ents : t \in tabs}
L0set == {L0[i] : i \in DOMAIN L0}
KeysOf(es) == {e.k : e \in es}
MinK(es) == CHOOSE k \in KeysOf(es) : \A j \in KeysOf(es) : k <= j
MaxK(es) == CHOOSE k \in KeysOf(es) : \A j \in KeysOf(es) : k >= j
\* key-range overlap of two non-empty entry sets (keyRange.overlapsWith on user keys)
Ovl(a, b) == a # {} /\ b # {} /\ MinK(a) <= MaxK(b) /\ MinK(b) <= MaxK(a)

IsDead(e) == e.kind \in {"del", "exp"}     \* isDeletedOrExpired: "exp" is an entry whose TTL has passed
IsDisc(e) == e.kind = "disc"
IsMerge(e) == e.kind = "merge"

\* ---------------------------------------------------------------- the ideal store
NewestIn(S, k, ts) ==
    LET c == {e \in S : e.k = k /\ e.ts <= ts} IN
    IF c = {} THEN Absent
    ELSE LET top == CHOOSE e \in c : \A f \in c : f.ts <= e.ts IN
         IF IsDead(top) THEN Absent ELSE [found |-> TRUE, ts |-> top.ts]

\* ---------------------------------------------------------------- the read path of the code
\* candidate of one source: the entry of k with the largest version <= ts
Cand(es, k, ts) == LET c == {e \in es : e.k = k /\ e.ts <= ts} IN
                   IF c = {} THEN {} ELSE {CHOOSE e \in c : \A f \in c : f.ts <= e.ts}
\* level >= 1: the table whose range covers k (binary search on Biggest)
LevelCand(i, k, ts) ==
    LET ts1 == {t \in lv[i] : MaxK(t.ents) >= k} IN
    IF ts1 = {} THEN {}
    ELSE LET t == CHOOSE x \in ts1 : \A z \in ts1 : MaxK(x.ents) <= MaxK(z.ents) IN Cand(t.ents, k, ts)
\* sources in the order the code consults them; the result is the candidate with the
\* largest version (no two sources hold the same k@ts in this module, so ties do not arise)
AllCands(k, ts) ==
    Cand(mt, k, ts) \cup UNION {Cand(imm[i], k, ts) : i \in DOMAIN imm}
    \cup UNION {Cand(L0[i].ents, k, ts) : i \in DOMAIN L0}
    \cup UNION {LevelCand(i, k, ts) : i \in Levels}
Get(k, ts) ==
    LET c == AllCands(k, ts) IN
    IF c = {} THEN Absent
    ELSE LET top == CHOOSE e \in c : \A f \in c : f.ts <= e.ts IN
         IF IsDead(top) THEN Absent ELSE [found |-> TRUE, ts |-> top.ts]

\* ---------------------------------------------------------------- sub-compaction retention
\* versions of one key, newest first
RECURSIVE Desc(_)
Desc(es) == IF es = {} THEN <<>>
            ELSE LET m == CHOOSE e \in es : \A f \in es : f.ts <= e.ts IN <<m>> \o Desc(es \ {m})

\* levels.go addKeys for the versions of one key (s: newest first)
RECURSIVE Keep(_, _, _, _, _)
Keep(s, i, nv, hasOverlap, d) ==
    IF i > Len(s) THEN {}
    ELSE LET e == s[i] IN
         IF e.ts <= d /\ ~IsMerge(e)
         THEN LET n == nv + 1
                  lastValid == IsDisc(e) \/ n = NVK
              IN IF IsDead(e) \/ lastValid
                 THEN \* skipKey is set: every older version is dropped
                      IF (~IsDead(e) /\ lastValid) \/ hasOverlap THEN {e} ELSE {}
                 ELSE {e} \cup Keep(s, i + 1, n, hasOverlap, d)
         ELSE {e} \cup Keep(s, i + 1, nv, hasOverlap, d)

Out(es, hasOverlap, d) ==
    UNION {Keep(Desc({e \in es : e.k = k}), 1, 0, hasOverlap, d) : k \in Keys}

\* checkOverlap(tables, lev): some table on a level >= lev intersects the key range
OverlapBelow(es, lev) == \E i \in Levels : i >= lev /\ \E t \in lv[i] : Ovl(es, t.ents)

NewTable(es, big) == [id |-> nextId, ents |-> es, big |-> big, aged |-> FALSE]

\* ---------------------------------------------------------------- initial state, writes
Init ==
    /\ mt = {} /\ imm = <<>> /\ L0 = <<>> /\ lv = [i \in Levels |-> {}]
    /\ nextTs = 1 /\ discardTs = 0 /\ nextId = 1 /\ written = {}

Put(k, kind) ==
    /\ nextTs <= MaxTs
    /\ LET e == [k |-> k, ts |-> nextTs, kind |-> kind] IN
       /\ mt' = mt \cup {e}
       /\ written' = written \cup {e}
    /\ nextTs' = nextTs + 1
    /\ UNCHANGED <<imm, L0, lv, discardTs, nextId>>

Rotate ==
    /\ mt # {} /\ Len(imm) < 2
    /\ imm' = Append(imm, mt) /\ mt' = {}
    /\ UNCHANGED <<L0, lv, nextTs, discardTs, nextId, written>>

Flush ==
    /\ imm # <<>> /\ nextId <= MaxId
    /\ L0' = Append(L0, NewTable(Head(imm), FALSE))
    /\ imm' = Tail(imm)
    /\ nextId' = nextId + 1
    /\ UNCHANGED <<mt, lv, nextTs, discardTs, written>>

\* the 10 s / 1 h age thresholds of the pickers pass
TimePasses ==
    /\ \E t \in L0set \cup UNION {lv[i] : i \in Levels} : ~t.aged
    /\ L0' = [i \in DOMAIN L0 |-> [L0[i] EXCEPT !.aged = TRUE]]
    /\ lv' = [i \in Levels |-> {[t EXCEPT !.aged = TRUE] : t \in lv[i]}]
    /\ UNCHANGED <<mt, imm, nextTs, discardTs, nextId, written>>

\* the discard watermark (readMark.DoneUntil / SetDiscardTs) only moves up, never past the
\* newest commit
AdvanceDiscard ==
    /\ \E d \in (discardTs + 1)..(nextTs - 1) : discardTs' = d
    /\ UNCHANGED <<mt, imm, L0, lv, nextTs, nextId, written>>

\* ---------------------------------------------------------------- compactions
\* fillTablesL0ToLbase: tables from the front of the slice while they overlap the growing range
RECURSIVE Prefix(_, _)
Prefix(i, acc) == IF i > Len(L0) THEN i - 1
                  ELSE IF acc = {} \/ Ovl(acc, L0[i].ents) THEN Prefix(i + 1, acc \cup L0[i].ents)
                  ELSE i - 1

\* the base level: any level with every level above it empty is a superset of what levelTargets
\* returns once it is clamped at the first non-empty level; without the clamp any level is possible.
CanBeBase(b) == BaseSkip # "none" \/ \A i \in Levels : i < b => lv[i] = {}
\* the levels an L0->Lbase compaction jumps over
OverlapSkipped(es, b) == \E i \in Levels : i < b /\ \E t \in lv[i] : Ovl(es, t.ents)

L0ToBase(b) ==
    /\ Len(L0) > 0 /\ CanBeBase(b) /\ nextId <= MaxId
    /\ LET n == Prefix(1, {})
           top == {L0[i] : i \in 1..n}
           bot == {t \in lv[b] : Ovl(Ents(top), t.ents)}
           all == Ents(top) \cup Ents(bot)
           hasOverlap == OverlapBelow(all, b + 1) \/ (BaseSkip = "checked" /\ OverlapSkipped(all, b))
           out == Out(all, hasOverlap, discardTs)
       IN /\ L0' = SubSeq(L0, n + 1, Len(L0))
          /\ lv' = [lv EXCEPT ![b] = (@ \ bot) \cup (IF out = {} THEN {} ELSE {NewTable(out, FALSE)})]
    /\ nextId' = nextId + 1
    /\ UNCHANGED <<mt, imm, nextTs, discardTs, written>>

\* replaceTables sorts level 0 by Smallest(): user key ascending, then version descending,
\* ties by position (sort.Slice is not stable; ids make the model deterministic)
SmallTs(t) == LET k == MinK(t.ents) vs == {e.ts : e \in {f \in t.ents : f.k = k}} IN
              CHOOSE v \in vs : \A w \in vs : w <= v
Before(a, b) == \/ MinK(a.ents) < MinK(b.ents)
                \/ (MinK(a.ents) = MinK(b.ents) /\ SmallTs(a) > SmallTs(b))
                \/ (MinK(a.ents) = MinK(b.ents) /\ SmallTs(a) = SmallTs(b) /\ a.id < b.id)
RECURSIVE SortedSeq(_)
SortedSeq(S) == IF S = {} THEN <<>>
                ELSE LET m == CHOOSE x \in S : \A y \in S : y # x => Before(x, y)
                     IN <<m>> \o SortedSeq(S \ {m})

L0ToL0 ==
    /\ nextId <= MaxId
    /\ LET cand == {i \in DOMAIN L0 : L0[i].aged /\ ~L0[i].big}
           top == {L0[i] : i \in cand}
           rest == {L0[i] : i \in DOMAIN L0 \ cand}
           \* subcompact: checkOverlap looks only at the levels below L0; with the repair
           \* ("fix: keep deletion markers in L0->L0 compactions") the rest of L0 counts as overlap
           hasOverlap == OverlapBelow(Ents(top), 1) \/ L0L0KeepsTombstones
           out == Out(Ents(top), hasOverlap, discardTs)
       IN /\ Cardinality(cand) >= MinL0L0
          /\ \E big \in BOOLEAN :
               L0' = SortedSeq(rest \cup (IF out = {} THEN {} ELSE {NewTable(out, big)}))
    /\ nextId' = nextId + 1
    /\ UNCHANGED <<mt, imm, lv, nextTs, discardTs, written>>

LevelDown(i) ==
    /\ i \in Levels /\ i < MaxLevel /\ nextId <= MaxId
    /\ \E t \in lv[i] :
         LET bot == {b \in lv[i + 1] : Ovl(t.ents, b.ents)}
             all == t.ents \cup Ents(bot)
             out == Out(all, OverlapBelow(all, i + 2), discardTs)
         IN lv' = [lv EXCEPT ![i] = @ \ {t},
                             ![i + 1] = (@ \ bot) \cup (IF out = {} THEN {} ELSE {NewTable(out, FALSE)})]
    /\ nextId' = nextId + 1
    /\ UNCHANGED <<mt, imm, L0, nextTs, discardTs, written>>

\* fillMaxLevelTables: an old table of the last level whose newest version is below the
\* watermark is rewritten in place (stale data reclaimed); nothing lies below it
LmaxRewrite ==
    /\ nextId <= MaxId
    /\ \E t \in lv[MaxLevel] :
         /\ t.aged /\ \A e \in t.ents : e.ts <= discardTs
         /\ LET out == Out(t.ents, FALSE, discardTs) IN
            lv' = [lv EXCEPT ![MaxLevel] = (@ \ {t}) \cup (IF out = {} THEN {} ELSE {NewTable(out, FALSE)})]
    /\ nextId' = nextId + 1
    /\ UNCHANGED <<mt, imm, L0, nextTs, discardTs, written>>

Next ==
    \/ \E k \in Keys, kind \in Kinds : Put(k, kind)
    \/ Rotate \/ Flush \/ TimePasses \/ AdvanceDiscard
    \/ \E b \in Levels : L0ToBase(b)
    \/ L0ToL0
    \/ \E i \in Levels : LevelDown(i)
    \/ LmaxRewrite

Spec == Init /\ [][Next]_vars

-----------------------------------------------------------------------------
\* C12: no flush or compaction changes a read at or above the discard watermark
ReadStable == \A k \in Keys, ts \in discardTs..MaxTs : Get(k, ts) = NewestIn(written, k, ts)

\* with merge-operator entries in play a plain Get still returns the newest entry
ReadStableNoMerge == ReadStable

AllEnts == mt \cup UNION {imm[i] : i \in DOMAIN imm} \cup Ents(L0set) \cup UNION {Ents(lv[i]) : i \in Levels}

\* C13: what retention promises, computed on the complete history of each key
\*  - every version above the watermark is kept
\*  - at or below it the newest NVK non-merge versions are kept, stopping at a delete or a
\*    discard-earlier-versions entry (a delete itself may go once nothing older can resurface)
\*  - merge entries are never dropped unless shadowed by such a stop
Required(k) ==
    LET s == Desc({e \in written : e.k = k})
        RECURSIVE Req(_, _)
        Req(i, nv) ==
            IF i > Len(s) THEN {}
            ELSE LET e == s[i] IN
                 IF e.ts <= discardTs /\ ~IsMerge(e)
                 THEN IF IsDead(e) THEN {}
                      ELSE IF IsDisc(e) \/ nv + 1 = NVK THEN {e}
                      ELSE {e} \cup Req(i + 1, nv + 1)
                 ELSE {e} \cup Req(i + 1, nv)
    IN Req(1, 0)
Retention == \A k \in Keys : Required(k) \subseteq AllEnts

\* C14: levels >= 1 hold tables with disjoint key ranges; every version of a key on such
\* a level lives in one table; no table is empty; ids are unique
Structure ==
    /\ \A i \in Levels : \A a, b \in lv[i] : a # b => ~Ovl(a.ents, b.ents)
    /\ \A t \in L0set \cup UNION {lv[i] : i \in Levels} : t.ents # {}
    /\ \A a, b \in L0set \cup UNION {lv[i] : i \in Levels} : a # b => a.id # b.id

\* the age order every compaction relies on when it decides that nothing older can resurface:
\* for one key, whatever sits in a higher container (memtables, then level 0 as a whole, then
\* level 1, ...) is newer than whatever sits in a lower one
Rank(r) == IF r = -1 THEN mt \cup UNION {imm[i] : i \in DOMAIN imm}
           ELSE IF r = 0 THEN Ents(L0set) ELSE Ents(lv[r])
AgeOrdered == \A i, j \in -1..MaxLevel : i < j =>
                  \A e \in Rank(i), f \in Rank(j) : e.k = f.k => e.ts > f.ts

\* nothing is ever invented
NoInvention == AllEnts \subseteq written
=============================================================================
