SPECIFICATION Spec
CONSTANTS
  Keys = {1, 2}
  MaxTs = 3
  FileCap = 2
  MaxFiles = 3
  CountGetItems = TRUE
  SkipInFlightFile = FALSE
  SafeWriteBack = TRUE
INVARIANTS ReadStable ItemReadable
