SPECIFICATION Spec
CONSTANTS
  Keys = {1, 2}
  MaxH = 2
  Writers = {1, 2}
  Readers = {1}
  PutsPerWriter = 1
  ReadsPerReader = 1
INVARIANTS Structure NoLoss NoAssertFail ReadsLinearizable
