SPECIFICATION Spec
CONSTANTS
  Syms = {0, 1, 255}
  MaxLen = 3
  MaxKeys = 3
INVARIANTS Rebuilt PrefixInv
