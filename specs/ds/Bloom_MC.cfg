SPECIFICATION Spec
CONSTANTS
  B = 8
  MinBits = 8
  MaxKeys = 2
  BPKs = {0, 1, 5, 10, 22, 44, 100}
INVARIANTS NFN InRange Shape
