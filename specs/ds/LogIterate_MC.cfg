SPECIFICATION Spec
CONSTANTS
  MaxRecs = 5
  TsSet = {1, 2}
INVARIANTS TypeOK UnitsAgree InOrder TxnAtomic ValidEndExact BufferShape
