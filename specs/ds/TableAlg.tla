------------------------------ MODULE TableAlg ------------------------------
(***************************************************************************)
(* The ALGORITHMS of table/iterator.go, checked by TLC against the cursor  *)
(* contract of SortedSeq (design-level part of C18; the binding to the     *)
(* code is the replay of TableOpsGen cases).                               *)
(*                                                                         *)
(* Part 1 - table.Iterator over a table made of blocks.  `runs` is a       *)
(* sequence of non-empty sorted runs with increasing ranges (the blocks of *)
(* one table; Builder.finishBlock cuts them, the index keeps the first key *)
(* of each block).  The iterator state is what the Go struct holds:        *)
(*   bpos    block index (may run to -1 or Len(runs))                      *)
(*   idx     entry index inside the block iterator (0-based, may be out of *)
(*           range), loaded = len(bi.data) > 0, berr = bi.err == io.EOF    *)
(*   ierr    itr.err != nil      (Valid() == ~ierr)                        *)
(*   shown   the entry bi.key/bi.val currently hold (stale when the last   *)
(*           setIdx was out of range, as in the code)                      *)
(* seekFrom: binary search over block base keys for the first block whose  *)
(* base key is > target, seek inside the block before it, fall through to  *)
(* the next block on EOF; seekForPrev = seekFrom, then prev() unless the   *)
(* key shown equals the target; next/prev move inside the block and hop to *)
(* the neighbour block when they run off it.                               *)
(*                                                                         *)
(* Part 2 - table.ConcatIterator over a level, the member iterators being  *)
(* contract cursors (Part 1 justifies that): setIdx with lazily created,   *)
(* REUSED member iterators, Rewind, Seek by binary search over Biggest /   *)
(* Smallest, Next skipping to the neighbour table.                         *)
(*                                                                         *)
(* Invariants AgreeIter / AgreeConcat: after every operation sequence      *)
(* (Rewind, Seek to any key, Next while valid; forward and reverse) the    *)
(* algorithm is valid exactly when the cursor over the flattened sequence  *)
(* is, and shows the same entry.                                           *)
(***************************************************************************)
EXTENDS TableOps, TLC
CONSTANTS NKeys, NVers, MaxEntries, MaxRuns, Dirs

IKeys == (1..NKeys) \X (1..NVers)
VARIABLES runs, rev,
          apos,                                  \* contract cursor over Flatten(runs)
          bpos, idx, loaded, berr, ierr, shown,  \* Part 1
          cidx, cpos                             \* Part 2: active table (0 = none, else 1-based), member cursor positions
vars == <<runs, rev, apos, bpos, idx, loaded, berr, ierr, shown, cidx, cpos>>

EntryOf(x) == [ik |-> x, val |-> x[1] * 10 + x[2]]
F == Flatten(runs)
N == Len(runs)
NoEntry == [ik |-> <<0, 0>>, val |-> 0]

Init == /\ \E S \in SUBSET IKeys :
              /\ Cardinality(S) \in 1..MaxEntries
              /\ \E cuts \in SUBSET (1..(Cardinality(S) - 1)) :
                    /\ Cardinality(cuts) < MaxRuns
                    /\ runs = SplitAt(SortSet({EntryOf(x) : x \in S}), cuts, 1)
        /\ rev \in Dirs
        /\ apos = -1
        /\ bpos = 0 /\ idx = 0 /\ loaded = FALSE /\ berr = FALSE /\ ierr = FALSE /\ shown = NoEntry
        /\ cidx = 0 /\ cpos = [j \in 1..Len(runs) |-> -1]

\* ---- Part 1: the iterator as functions on a state record -------------------------------
St == [bpos |-> bpos, idx |-> idx, loaded |-> loaded, berr |-> berr, ierr |-> ierr, shown |-> shown]
Blk(b) == runs[b + 1]                              \* bpos is 0-based
\* blockIterator.setIdx(i) inside block b
SetIdx(s, b, i) == IF i >= Len(Blk(b)) \/ i < 0 THEN [s EXCEPT !.idx = i, !.berr = TRUE]
                   ELSE [s EXCEPT !.idx = i, !.berr = FALSE, !.shown = Blk(b)[i + 1]]
\* t.block(b) + bi.setBlock
Load(s, b) == [s EXCEPT !.bpos = b, !.loaded = TRUE, !.berr = FALSE, !.idx = 0]
SeekToFirst(s) == IF N = 0 THEN [s EXCEPT !.ierr = TRUE]
                  ELSE LET s2 == SetIdx(Load(s, 0), 0, 0) IN [s2 EXCEPT !.ierr = s2.berr]
SeekToLast(s) == IF N = 0 THEN [s EXCEPT !.ierr = TRUE]
                 ELSE LET s2 == SetIdx(Load(s, N - 1), N - 1, Len(Blk(N - 1)) - 1) IN [s2 EXCEPT !.ierr = s2.berr]
\* blockIterator.seek(key, origin): first entry >= key (sort.Search), possibly Len = EOF
InBlockGE(b, t) == LET c == {i \in 0..(Len(Blk(b)) - 1) : IKLeq(t, Blk(b)[i + 1].ik)} IN IF c = {} THEN Len(Blk(b)) ELSE SMin(c)
\* sort.Search probes entries on its way; when the result is out of range bi.key keeps the last probed entry,
\* which is some entry of the block (all of them are < t in that case): modelled as the last entry
SeekHelper(s, b, t) == LET i == InBlockGE(b, t)
                           s1 == Load(s, b)
                           s2 == IF i >= Len(Blk(b)) THEN [SetIdx(s1, b, i) EXCEPT !.shown = Blk(b)[Len(Blk(b))]] ELSE SetIdx(s1, b, i)
                       IN [s2 EXCEPT !.ierr = s2.berr]
\* Iterator.seekFrom(key, origin)
SeekFrom(s, t) ==
    LET c == {b \in 0..(N - 1) : IKLess(t, Blk(b)[1].ik)}       \* blocks whose base key is > t
        first == IF c = {} THEN N ELSE SMin(c)
    IN IF first = 0 THEN SeekHelper(s, 0, t)
       ELSE LET s1 == SeekHelper(s, first - 1, t) IN
            IF s1.ierr THEN (IF first = N THEN s1 ELSE SeekHelper(s1, first, t)) ELSE s1
RECURSIVE ItNext(_), ItPrev(_)
ItNext(s) == IF s.bpos >= N THEN [s EXCEPT !.ierr = TRUE]
             ELSE IF ~s.loaded THEN LET s2 == SetIdx(Load(s, s.bpos), s.bpos, 0) IN [s2 EXCEPT !.ierr = s2.berr]
             ELSE LET s2 == SetIdx(s, s.bpos, s.idx + 1) IN
                  IF s2.berr THEN ItNext([s2 EXCEPT !.bpos = s.bpos + 1, !.loaded = FALSE]) ELSE [s2 EXCEPT !.ierr = FALSE]
ItPrev(s) == IF s.bpos < 0 THEN [s EXCEPT !.ierr = TRUE]
             ELSE IF ~s.loaded THEN LET s2 == SetIdx(Load(s, s.bpos), s.bpos, Len(Blk(s.bpos)) - 1) IN [s2 EXCEPT !.ierr = s2.berr]
             ELSE LET s2 == SetIdx(s, s.bpos, s.idx - 1) IN
                  IF s2.berr THEN ItPrev([s2 EXCEPT !.bpos = s.bpos - 1, !.loaded = FALSE]) ELSE [s2 EXCEPT !.ierr = FALSE]
\* Iterator.seekForPrev
SeekForPrev(s, t) == LET s1 == SeekFrom(s, t) IN IF s1.shown.ik # t THEN ItPrev(s1) ELSE s1
IterRewind(s) == IF rev THEN SeekToLast(s) ELSE SeekToFirst(s)
IterSeek(s, t) == IF rev THEN SeekForPrev(s, t) ELSE SeekFrom(s, t)
IterNext(s) == IF rev THEN ItPrev(s) ELSE ItNext(s)
Install(s) == /\ bpos' = s.bpos /\ idx' = s.idx /\ loaded' = s.loaded /\ berr' = s.berr /\ ierr' = s.ierr /\ shown' = s.shown

\* ---- Part 2: ConcatIterator over the runs taken as tables --------------------------------
Tab(j) == runs[j]
\* member iterator j performs op; others keep their (stale) positions
CSetIdx(i) == IF i < 1 \/ i > N THEN 0 ELSE i
CurValid(ci, cp) == ci # 0 /\ CValid(Tab(ci), cp[ci])
RECURSIVE SkipLoop(_, _)
\* the loop of ConcatIterator.Next after the current table ran out
SkipLoop(ci, cp) == LET nx == CSetIdx(IF rev THEN ci - 1 ELSE ci + 1) IN
                    IF nx = 0 THEN <<0, cp>>
                    ELSE LET cp2 == [cp EXCEPT ![nx] = CRewind(Tab(nx), rev)] IN
                         IF CValid(Tab(nx), cp2[nx]) THEN <<nx, cp2>> ELSE SkipLoop(nx, cp2)
ConcatRewind == IF N = 0 THEN <<cidx, cpos>>
                ELSE LET i == IF rev THEN N ELSE 1 IN <<i, [cpos EXCEPT ![i] = CRewind(Tab(i), rev)]>>
ConcatSeek(t) == LET fw == {j \in 1..N : IKLeq(t, Biggest(Tab(j)))}
                     rv == {j \in 1..N : IKLeq(Smallest(Tab(j)), t)}
                     i == IF rev THEN (IF rv = {} THEN 0 ELSE SMax(rv)) ELSE (IF fw = {} THEN 0 ELSE SMin(fw))
                 IN IF i = 0 THEN <<0, cpos>> ELSE <<i, [cpos EXCEPT ![i] = CSeek(Tab(i), t, rev)]>>
ConcatNext == LET cp == [cpos EXCEPT ![cidx] = CNext(Tab(cidx), cpos[cidx], rev)] IN
              IF CValid(Tab(cidx), cp[cidx]) THEN <<cidx, cp>> ELSE SkipLoop(cidx, cp)
InstallC(p) == cidx' = p[1] /\ cpos' = p[2]

\* ---- the joint machine -------------------------------------------------------------------
Rewind == /\ apos' = CRewind(F, rev) /\ Install(IterRewind(St)) /\ InstallC(ConcatRewind) /\ UNCHANGED <<runs, rev>>
Seek(t) == /\ apos' = CSeek(F, t, rev) /\ Install(IterSeek(St, t)) /\ InstallC(ConcatSeek(t)) /\ UNCHANGED <<runs, rev>>
Next == /\ CValid(F, apos) /\ apos' = CNext(F, apos, rev) /\ Install(IterNext(St)) /\ InstallC(ConcatNext) /\ UNCHANGED <<runs, rev>>
Step == Rewind \/ Next \/ \E t \in IKeys : Seek(t)
Spec == Init /\ [][Step]_vars

\* the SortedSeq operator theorems on the flattened sequence of every generated table (evaluated once, before the first operation)
SeqTheorems == apos = -1 => /\ IsSorted(F) /\ ScanCorrect(F)
                            /\ \A t \in IKeys : SeekGECorrect(F, t) /\ SeekLECorrect(F, t) /\ SeekForPrevLemma(F, t) /\ SeekScanCorrect(F, t)
AgreeIter == apos # -1 => /\ (~ierr) = CValid(F, apos)
                          /\ (CValid(F, apos) => shown = F[apos])
AgreeConcat == apos # -1 => /\ CurValid(cidx, cpos) = CValid(F, apos)
                            /\ (CValid(F, apos) => Tab(cidx)[cpos[cidx]] = F[apos])
=============================================================================
