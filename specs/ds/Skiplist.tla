------------------------------ MODULE Skiplist ------------------------------
(***************************************************************************)
(* The memtable skiplist as a sorted map (C22): skl.Skiplist Put / Get and *)
(* skl.Iterator (Seek, SeekForPrev, SeekToFirst, SeekToLast, Next, Prev,   *)
(* Key, Value).                                                            *)
(*                                                                         *)
(* The state is a set m of entries [ik, val] with pairwise distinct        *)
(* internal keys; nodes are never removed.  Put of an existing internal    *)
(* key replaces its value.  Get(k, v) returns the entry with the smallest  *)
(* internal key >= <<k, v>> if it has user key k (i.e. the newest version  *)
(* <= v), and reports that entry's version.  An iterator position is the   *)
(* internal key of its node (None when invalid); Next / Prev move to the   *)
(* successor / predecessor IN THE CURRENT MAP (so entries put after the    *)
(* iterator was positioned are seen).                                      *)
(* Code anchors: skl/skl.go Put (CAS towers, in-place overwrite), findNear *)
(* (all four less/allowEqual combinations), Get, Iterator.                 *)
(***************************************************************************)
EXTENDS SortedSeq

None == <<0, 0>>
Put(m, x, val) == {e \in m : e.ik # x} \cup {[ik |-> x, val |-> val]}
MSeq(m) == SortSet(m)
KeyAt(s, p) == IF CValid(s, p) THEN s[p].ik ELSE None
ValOf(m, x) == (CHOOSE e \in m : e.ik = x).val
Has(m, x) == \E e \in m : e.ik = x

NotFound == [found |-> FALSE, v |-> 0, val |-> 0]
\* the node Get inspects: first node >= <<k, v>> (findNear(key, less=false, allowEqual=true))
GetNode(m, k, v) == KeyAt(MSeq(m), SeekGE(MSeq(m), <<k, v>>))
Get(m, k, v) == LET x == GetNode(m, k, v) IN
                IF x # None /\ x[1] = k THEN [found |-> TRUE, v |-> x[2], val |-> ValOf(m, x)] ELSE NotFound

ItSeek(m, t)        == KeyAt(MSeq(m), SeekGE(MSeq(m), t))           \* findNear(t, false, true)
ItSeekForPrev(m, t) == KeyAt(MSeq(m), SeekLE(MSeq(m), t))           \* findNear(t, true, true)
ItFirst(m)          == KeyAt(MSeq(m), 1)
ItLast(m)           == KeyAt(MSeq(m), Len(MSeq(m)))
\* cur is the key of an existing node
ItNext(m, cur)      == LET s == MSeq(m) IN KeyAt(s, SeekGE(s, cur) + 1)     \* tower[0] of the node
ItPrev(m, cur)      == LET s == MSeq(m) IN KeyAt(s, SeekGE(s, cur) - 1)     \* findNear(cur, true, false)
ItObs(m, x) == IF x = None THEN NoObs ELSE [valid |-> TRUE, k |-> x[1], v |-> x[2], val |-> ValOf(m, x)]

IterOps == {"seek", "seekprev", "first", "last", "next", "prev"}
\* result position of an iterator operation with argument t (seek target) / current position cur
ItApply(m, op, t, cur) ==
    CASE op = "seek" -> ItSeek(m, t)
      [] op = "seekprev" -> ItSeekForPrev(m, t)
      [] op = "first" -> ItFirst(m)
      [] op = "last" -> ItLast(m)
      [] op = "next" -> ItNext(m, cur)
      [] op = "prev" -> ItPrev(m, cur)

\* ---- properties of the contract (checked in SkiplistGen with Gen = FALSE) -----------------
DistinctKeys(m) == \A e, f \in m : e.ik = f.ik => e = f
\* Get agrees with the map: it returns the newest version <= v of k
GetCorrect(m, k, v) ==
    LET c == {e \in m : e.ik[1] = k /\ e.ik[2] <= v} r == Get(m, k, v) IN
    IF c = {} THEN r = NotFound
    ELSE r.found /\ r.v = SMax({e.ik[2] : e \in c}) /\ r.val = ValOf(m, <<k, r.v>>)
\* Next/Prev are inverse on existing nodes
NextPrevInverse(m) == \A e \in m : /\ (ItNext(m, e.ik) # None => ItPrev(m, ItNext(m, e.ik)) = e.ik)
                                   /\ (ItPrev(m, e.ik) # None => ItNext(m, ItPrev(m, e.ik)) = e.ik)
=============================================================================
