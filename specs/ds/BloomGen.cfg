SPECIFICATION Spec
CONSTANTS
  B = 65536
  MinBits = 64
  MaxN = 2
  BPKs = {0, 1, 2, 3, 10, 43, 44, 45, 100}
  LongNs = {10, 100}
INVARIANTS AllMembers Emit
