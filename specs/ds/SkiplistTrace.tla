---------------------------- MODULE SkiplistTrace ----------------------------
(***************************************************************************)
(* Trace validation for C22: histories of REAL concurrent goroutines on    *)
(* one skl.Skiplist, recorded as call / return events with a global atomic *)
(* sequence number, are checked for linearizability against the Skiplist   *)
(* contract.  trace.ndjson holds many short histories separated by "reset" *)
(* events.  Every event is a record with the same fields:                  *)
(*   e     "reset" | "call" | "ret"                                        *)
(*   id    operation id (unique within a history)                          *)
(*   op    "put" | "get" | "seek" | "seekprev" | "first" | "last" |        *)
(*         "next" | "prev" | "value"                                       *)
(*   k, v  argument: key of the put / get / seek target, or the iterator's *)
(*         current key for next / prev / value                             *)
(*   val   value token of a put                                            *)
(*   found, rk, rv, rval   the result the real call returned (copied into  *)
(*         the call event by the recorder, which writes the file after the *)
(*         history has finished; it lets the search prune early)           *)
(* An operation takes effect at one linearization point between its call   *)
(* and its return (action Lin).  Get is modelled as the code is: the node  *)
(* is found first (findNear) and its value is loaded afterwards, so it has *)
(* two points (LinFind, LinLoad) - the value returned is a value that was  *)
(* put for exactly the key reported.                                       *)
(***************************************************************************)
EXTENDS Skiplist, Json, TLC

Trace == ndJsonDeserialize("trace.ndjson")

VARIABLES l,      \* index of the next trace line
          m,      \* the abstract map
          pend    \* operations in flight: id -> [ev, st, node]
vars == <<l, m, pend>>

Ids == DOMAIN pend
TraceInit == /\ TLCSet(1, 0)
             /\ l = 1 /\ m = {} /\ pend = <<>>

Ev == Trace[l]
HasEv == l <= Len(Trace)

Reset == /\ HasEv /\ Ev.e = "reset"
         /\ Ids = {}                      \* every operation of the previous history has returned
         /\ m' = {} /\ pend' = <<>> /\ l' = l + 1

Call == /\ HasEv /\ Ev.e = "call" /\ Ev.id \notin Ids
        /\ pend' = [i \in Ids \cup {Ev.id} |-> IF i = Ev.id THEN [ev |-> Ev, st |-> "called", node |-> None] ELSE pend[i]]
        /\ l' = l + 1 /\ UNCHANGED m

Ret == /\ HasEv /\ Ev.e = "ret" /\ Ev.id \in Ids
       /\ pend[Ev.id].st = "done"
       /\ pend' = [i \in Ids \ {Ev.id} |-> pend[i]]
       /\ l' = l + 1 /\ UNCHANGED m

ResKey(ev) == IF ev.found THEN <<ev.rk, ev.rv>> ELSE None
Done(i) == pend' = [pend EXCEPT ![i].st = "done"]

\* linearization point of operation i (silent: consumes no trace line)
Lin(i) ==
    LET p == pend[i] ev == p.ev IN
    /\ UNCHANGED l
    /\ CASE ev.op = "put" /\ p.st = "called" ->
                m' = Put(m, <<ev.k, ev.v>>, ev.val) /\ Done(i)
         [] ev.op = "get" /\ p.st = "called" ->               \* LinFind
                LET x == GetNode(m, ev.k, ev.v) hit == x # None /\ x[1] = ev.k IN
                /\ hit = ev.found
                /\ (hit => x[2] = ev.rv)
                /\ pend' = [pend EXCEPT ![i].st = IF hit THEN "found" ELSE "done", ![i].node = x]
                /\ UNCHANGED m
         [] ev.op = "get" /\ p.st = "found" ->                \* LinLoad
                ValOf(m, p.node) = ev.rval /\ Done(i) /\ UNCHANGED m
         [] ev.op \in IterOps /\ p.st = "called" ->
                ItApply(m, ev.op, <<ev.k, ev.v>>, <<ev.k, ev.v>>) = ResKey(ev) /\ Done(i) /\ UNCHANGED m
         [] ev.op = "value" /\ p.st = "called" ->
                Has(m, <<ev.k, ev.v>>) /\ ValOf(m, <<ev.k, ev.v>>) = ev.rval /\ Done(i) /\ UNCHANGED m
         [] OTHER -> FALSE

TraceNext == Reset \/ Call \/ Ret \/ \E i \in Ids : Lin(i)
TraceSpec == TraceInit /\ [][TraceNext]_vars

\* high-water mark of consumed lines; the trace is accepted iff some behaviour consumed all of it
HighWater == IF l > TLCGet(1) THEN TLCSet(1, l) ELSE TRUE
Accepted == IF TLCGet(1) = Len(Trace) + 1 THEN TRUE
            ELSE PrintT(<<"REJECTED_AT_LINE", TLCGet(1), Trace[TLCGet(1)]>>) /\ FALSE
=============================================================================
