------------------------------- MODULE Varint -------------------------------
(***************************************************************************)
(* Unsigned varints as used by encoding/binary (PutUvarint / Uvarint /     *)
(* ReadUvarint) for the log-record header and the value struct (C16, C20). *)
(*                                                                         *)
(* TLC integers are 32 bit, the fields are up to 64 bit, so a number is    *)
(* represented by the sequence of its base-128 digits, least significant   *)
(* first, canonical (no leading zero digit except for the number 0 = <<0>>)*)
(* The harness converts digit sequences to uint64.                         *)
(***************************************************************************)
EXTENDS Integers, Sequences

IsNum(d) == /\ Len(d) \in 1..10
            /\ \A i \in 1..Len(d) : d[i] \in 0..127
            /\ (Len(d) > 1 => d[Len(d)] # 0)
            /\ (Len(d) = 10 => d[10] <= 1)              \* < 2^64
IsU32(d) == IsNum(d) /\ Len(d) <= 5 /\ (Len(d) = 5 => d[5] <= 15)

RECURSIVE Digits(_)
Digits(n) == IF n < 128 THEN <<n>> ELSE <<n % 128>> \o Digits(n \div 128)
RECURSIVE NumVal(_)       \* only for numbers that fit a TLC integer
NumVal(d) == IF Len(d) = 1 THEN d[1] ELSE d[1] + 128 * NumVal(Tail(d))

\* the boundary numbers that do not fit a TLC integer, as digit sequences
Pow2_32  == <<0, 0, 0, 0, 16>>
Pow2_32m1 == <<127, 127, 127, 127, 15>>
Pow2_63  == <<0, 0, 0, 0, 0, 0, 0, 0, 0, 1>>
Pow2_64m2 == <<126, 127, 127, 127, 127, 127, 127, 127, 127, 1>>
Pow2_64m1 == <<127, 127, 127, 127, 127, 127, 127, 127, 127, 1>>

\* binary.PutUvarint: 7 bits per byte, continuation bit on all but the last byte
PutUvarint(d) == [i \in 1..Len(d) |-> IF i < Len(d) THEN d[i] + 128 ELSE d[i]]
SizeVarint(d) == Len(d)                                  \* y.sizeVarint

\* strip leading (most significant) zero digits: non-canonical encodings decode to the same number
RECURSIVE Canon(_)
Canon(d) == IF Len(d) > 1 /\ d[Len(d)] = 0 THEN Canon(SubSeq(d, 1, Len(d) - 1)) ELSE d

\* binary.Uvarint(buf) = [num, n]: n > 0 bytes consumed; n = 0 buffer too small; n < 0 overflow
RECURSIVE UvScan(_, _, _)
UvScan(buf, i, acc) ==
    IF i > Len(buf) THEN [num |-> <<0>>, n |-> 0]
    ELSE IF i > 10 THEN [num |-> <<0>>, n |-> -i]
    ELSE IF buf[i] < 128
         THEN IF i = 10 /\ buf[i] > 1 THEN [num |-> <<0>>, n |-> -i]
              ELSE [num |-> Canon(Append(acc, buf[i])), n |-> i]
         ELSE UvScan(buf, i + 1, Append(acc, buf[i] - 128))
Uvarint(buf) == UvScan(buf, 1, <<>>)

VarintRoundTrip(d, junk) == Uvarint(PutUvarint(d) \o junk) = [num |-> d, n |-> Len(d)]
=============================================================================
