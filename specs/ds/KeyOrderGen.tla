----------------------------- MODULE KeyOrderGen -----------------------------
(* Generator for C20: a single state; prints the whole boundary domain sorted by the order
   the specification demands (user key ascending, version descending) together with the
   byte tuples of the versions.  The harness concretises every item, and compares
   y.CompareKeys / y.SameKey on every pair with the positions in this sequence. *)
EXTENDS KeyOrder, SequencesExt, Json, TLC
VARIABLE g
GInit == g = 0
GNext == UNCHANGED g
GenSpec == GInit /\ [][GNext]_g
Sorted == SetToSortSeq(Items, AbsLess)
Emit == g = 0 => PrintT(<<"CASE", ToJson([order |-> Sorted, versions |-> Versions, run |-> ModelRun])>>)
=============================================================================
