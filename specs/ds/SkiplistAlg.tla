----------------------------- MODULE SkiplistAlg -----------------------------
(***************************************************************************)
(* The lock-free algorithm of skl/skl.go at the grain of single atomic     *)
(* loads, stores and CAS operations (design-level confidence for C22; the  *)
(* binding to the code is the trace validation of SkiplistTrace).          *)
(*                                                                         *)
(* Nodes live in an arena: ids 1..MaxNodes are handed out by an atomic     *)
(* counter, 0 is the head, End is the nil offset.  Every node has an       *)
(* immutable key and height, an atomically replaceable value and a tower   *)
(* nxt[n][l] of atomic offsets.  Keys are plain naturals here (the version *)
(* part of internal keys only matters for the order, which SortedSeq and   *)
(* KeyOrder cover).                                                        *)
(*                                                                         *)
(* Writers run Put (skl.go:273): one search per level from the top         *)
(* (findSpliceForLevel), in-place overwrite when the key exists, otherwise *)
(* allocate a node of a random height, raise the list height, and link the *)
(* node level by level from the base with CAS, re-searching after a failed *)
(* CAS.  Readers run findNear in its two extreme modes: Get (>=, equal     *)
(* allowed) followed by the value load, and FindLess (<, as Iterator.Prev),*)
(* every pointer load being one step.                                      *)
(*                                                                         *)
(* Properties: the base list is strictly sorted and cycle free, upper      *)
(* lists are sorted sublists of it, a finished Put is never lost, and      *)
(* every read is linearizable: its result is the result of the sequential  *)
(* contract in one of the abstract states the list went through between    *)
(* the call and the return (writes take effect at the successful base-     *)
(* level CAS / at the value store).                                        *)
(***************************************************************************)
EXTENDS Integers, Sequences, FiniteSets, TLC

CONSTANTS Keys,          \* set of naturals >= 1
          MaxH,          \* maximum tower height (maxHeight = 20 in the code)
          Writers, Readers,
          PutsPerWriter, ReadsPerReader

MaxNodes == Cardinality(Writers) * PutsPerWriter
End == -1
HeadN == 0
Levels == 0..(MaxH - 1)
NodeIds == 0..MaxNodes

VARIABLES key, val, hgt, nxt,     \* arena: per node
          nnodes, height,         \* allocation counter, list height (both atomic)
          nval,                   \* fresh value counter (ghost: makes every put observable)
          w, r,                   \* process records
          absHist                 \* ghost: the abstract states the list went through
vars == <<key, val, hgt, nxt, nnodes, height, nval, w, r, absHist>>

\* ---- the abstract state: keys reachable on the base level, with their values
RECURSIVE Reach(_, _, _)
Reach(n, l, fuel) == IF n = End \/ fuel = 0 THEN {} ELSE {n} \cup Reach(nxt[n][l], l, fuel - 1)
LevelNodes(l) == Reach(nxt[HeadN][l], l, MaxNodes + 1)
Abs == {<<key[n], val[n]>> : n \in LevelNodes(0)}
AbsKeys(s) == {p[1] : p \in s}

NoUpd == [x \in Levels |-> End]
IdleW == [pc |-> "idle", k |-> 0, v |-> 0, i |-> 0, before |-> 0, prev |-> NoUpd, next |-> NoUpd, known |-> {}, x |-> 0, hx |-> 0,
          done |-> 0, retry |-> FALSE]
IdleR == [pc |-> "idle", op |-> "", k |-> 0, x |-> 0, lvl |-> 0, node |-> End, from |-> 0, done |-> 0]

Init == /\ key = [n \in NodeIds |-> 0] /\ val = [n \in NodeIds |-> 0] /\ hgt = [n \in NodeIds |-> IF n = HeadN THEN MaxH ELSE 0]
        /\ nxt = [n \in NodeIds |-> [l \in Levels |-> End]]
        /\ nnodes = 0 /\ height = 1 /\ nval = 0
        /\ w = [p \in Writers |-> IdleW] /\ r = [q \in Readers |-> IdleR]
        /\ absHist = <<{}>>

Record == absHist' = IF Abs' # absHist[Len(absHist)] THEN Append(absHist, Abs') ELSE absHist
Quiet == UNCHANGED <<absHist>>

\* ---- writer ------------------------------------------------------------------------
\* Put: listHeight := s.getHeight(); prev[listHeight] = head
WStart(p) == /\ w[p].pc = "idle" /\ w[p].done < PutsPerWriter
             /\ \E k \in Keys :
                  w' = [w EXCEPT ![p] = [IdleW EXCEPT !.pc = "search", !.k = k, !.v = nval + 1, !.i = height - 1, !.before = HeadN,
                                                      !.known = {}, !.done = w[p].done]]
             /\ nval' = nval + 1
             /\ UNCHANGED <<key, val, hgt, nxt, nnodes, height, r>> /\ Quiet

\* level i is resolved with (pv, nx): go down, or (first pass) allocate, or (link pass) try the CAS
LevelDone(p, pv, nx) ==
    LET me == w[p]
        me2 == [me EXCEPT !.prev[me.i] = pv, !.next[me.i] = nx, !.known = @ \cup {me.i}] IN
    IF me.pc = "search"
    THEN IF me.i > 0 THEN [me2 EXCEPT !.i = me.i - 1, !.before = pv] ELSE [me2 EXCEPT !.pc = "alloc"]
    ELSE [me2 EXCEPT !.pc = "cas"]

\* one load of findSpliceForLevel(key, before, i); used by the first pass ("search"), by the search
\* from head for levels above the old list height and by the re-search after a failed CAS ("research")
WSearch(p) ==
    /\ w[p].pc \in {"search", "research"}
    /\ LET me == w[p] nx == nxt[me.before][me.i] IN
       IF nx = End \/ me.k < key[nx] THEN w' = [w EXCEPT ![p] = LevelDone(p, me.before, nx)]
       ELSE IF me.k = key[nx]                                    \* equality: overwrite in place ...
            THEN w' = [w EXCEPT ![p] = [me EXCEPT !.pc = IF me.pc = "research" /\ me.i > 0 THEN "assertfail" ELSE "setval", !.x = nx]]
                                                                 \* ... which Put asserts can only happen on the base level once it links
       ELSE w' = [w EXCEPT ![p].before = nx]
    /\ UNCHANGED <<key, val, hgt, nxt, nnodes, height, nval, r>> /\ Quiet

\* prev[i].setValue(arena, v): one atomic store of (offset, size)
WSetVal(p) == /\ w[p].pc = "setval"
              /\ val' = [val EXCEPT ![w[p].x] = w[p].v]
              /\ w' = [w EXCEPT ![p] = [IdleW EXCEPT !.done = w[p].done + 1]]
              /\ UNCHANGED <<key, hgt, nxt, nnodes, height, nval, r>> /\ Record

\* newNode with a random height; the node is private until it is linked
WAlloc(p) == /\ w[p].pc = "alloc"
             /\ \E hx \in 1..MaxH :
                  LET x == nnodes + 1 IN
                  /\ nnodes' = x
                  /\ key' = [key EXCEPT ![x] = w[p].k] /\ val' = [val EXCEPT ![x] = w[p].v] /\ hgt' = [hgt EXCEPT ![x] = hx]
                  /\ w' = [w EXCEPT ![p] = [w[p] EXCEPT !.pc = "raise", !.x = x, !.hx = hx]]
             /\ UNCHANGED <<nxt, height, nval, r>> /\ Quiet

\* the CAS loop on s.height (equivalent to an atomic max)
WRaise(p) == /\ w[p].pc = "raise"
             /\ height' = IF w[p].hx > height THEN w[p].hx ELSE height
             /\ w' = [w EXCEPT ![p] = [w[p] EXCEPT !.pc = "link", !.i = 0]]
             /\ UNCHANGED <<key, val, hgt, nxt, nnodes, nval, r>> /\ Quiet

\* start linking level i: levels the first pass did not visit are searched from head
WLink(p) == /\ w[p].pc = "link"
            /\ w' = [w EXCEPT ![p] = IF w[p].i \in w[p].known THEN [w[p] EXCEPT !.pc = "cas"]
                                     ELSE [w[p] EXCEPT !.pc = "research", !.before = HeadN]]
            /\ UNCHANGED <<key, val, hgt, nxt, nnodes, height, nval, r>> /\ Quiet

\* x.tower[i].Store(next); prev[i].casNextOffset(i, next, x)   (x is not reachable at level i before the CAS)
WCas(p) ==
    /\ w[p].pc = "cas"
    /\ LET me == w[p] i == me.i pv == me.prev[i] nx == me.next[i] IN
       IF nxt[pv][i] = nx
       THEN /\ nxt' = [nxt EXCEPT ![me.x][i] = nx, ![pv][i] = me.x]
            /\ w' = [w EXCEPT ![p] = IF i + 1 < me.hx THEN [me EXCEPT !.pc = "link", !.i = i + 1]
                                     ELSE [IdleW EXCEPT !.done = me.done + 1]]
       ELSE /\ nxt' = [nxt EXCEPT ![me.x][i] = nx]
            /\ w' = [w EXCEPT ![p] = [me EXCEPT !.pc = "research", !.before = pv, !.retry = TRUE]]
    /\ UNCHANGED <<key, val, hgt, nnodes, height, nval, r>> /\ Record

\* ---- reader ------------------------------------------------------------------------
RStart(q) == /\ r[q].pc = "idle" /\ r[q].done < ReadsPerReader
             /\ \E k \in Keys, op \in {"get", "less"} :
                  r' = [r EXCEPT ![q] = [IdleR EXCEPT !.pc = "walk", !.op = op, !.k = k, !.x = HeadN, !.lvl = height - 1,
                                                      !.from = Len(absHist), !.done = r[q].done]]
             /\ UNCHANGED <<key, val, hgt, nxt, nnodes, height, nval, w>> /\ Quiet

NotHead(n) == IF n = HeadN THEN End ELSE n
\* one load of findNear
RWalk(q) ==
    /\ r[q].pc = "walk"
    /\ LET me == r[q] nx == nxt[me.x][me.lvl]
           down == [me EXCEPT !.lvl = me.lvl - 1]
           ret(n) == [me EXCEPT !.pc = IF me.op = "get" /\ n # End /\ key[n] = me.k THEN "load" ELSE "ret", !.node = n] IN
       r' = [r EXCEPT ![q] =
               IF nx = End THEN (IF me.lvl > 0 THEN down ELSE ret(IF me.op = "get" THEN End ELSE NotHead(me.x)))
               ELSE IF me.k > key[nx] THEN [me EXCEPT !.x = nx]
               ELSE IF me.k = key[nx]
                    THEN (IF me.op = "get" THEN ret(nx)                       \* allowEqual
                          ELSE IF me.lvl > 0 THEN down ELSE ret(NotHead(me.x)))
               ELSE (IF me.lvl > 0 THEN down ELSE ret(IF me.op = "get" THEN nx ELSE NotHead(me.x)))]
    /\ UNCHANGED <<key, val, hgt, nxt, nnodes, height, nval, w>> /\ Quiet

\* the abstract states since the call
Window(q) == {absHist[j] : j \in r[q].from..Len(absHist)}
MaxLess(s, k) == LET c == {j \in AbsKeys(s) : j < k} IN IF c = {} THEN 0 ELSE CHOOSE j \in c : \A j2 \in c : j2 <= j

\* Get: load the value of the node found
RLoad(q) == /\ r[q].pc = "load"
            /\ r' = [r EXCEPT ![q] = [r[q] EXCEPT !.pc = "ret", !.x = val[r[q].node]]]     \* x now holds the value read
            /\ UNCHANGED <<key, val, hgt, nxt, nnodes, height, nval, w>> /\ Quiet

RRet(q) == /\ r[q].pc = "ret"
           /\ r' = [r EXCEPT ![q] = [IdleR EXCEPT !.done = r[q].done + 1]]
           /\ UNCHANGED <<key, val, hgt, nxt, nnodes, height, nval, w>> /\ Quiet

Next == \/ \E p \in Writers : WStart(p) \/ WSearch(p) \/ WSetVal(p) \/ WAlloc(p) \/ WRaise(p) \/ WLink(p) \/ WCas(p)
        \/ \E q \in Readers : RStart(q) \/ RWalk(q) \/ RLoad(q) \/ RRet(q)
Spec == Init /\ [][Next]_vars

\* ---- properties --------------------------------------------------------------------
RECURSIVE SortedFrom(_, _, _)
SortedFrom(n, l, fuel) == \/ n = End \/ nxt[n][l] = End
                          \/ (fuel > 0 /\ key[n] < key[nxt[n][l]] /\ SortedFrom(nxt[n][l], l, fuel - 1))
\* every level is a strictly sorted, cycle-free list; upper levels are sublists of the base level
Structure == /\ \A l \in Levels : nxt[HeadN][l] = End \/ SortedFrom(nxt[HeadN][l], l, MaxNodes + 1)
             /\ \A l \in Levels \ {0} : LevelNodes(l) \subseteq LevelNodes(0)
             /\ \A l \in Levels : \A n \in LevelNodes(l) : hgt[n] > l
             /\ \A l \in Levels : l >= height => nxt[HeadN][l] = End
\* a key is never lost and appears once
NoLoss == /\ \A j \in 2..Len(absHist) : AbsKeys(absHist[j - 1]) \subseteq AbsKeys(absHist[j])
          /\ Cardinality(AbsKeys(Abs)) = Cardinality(LevelNodes(0))
\* the two assertions of Put (y.AssertTrue(prev[i] != next[i]) above the old height, "Equality can happen only on base level")
NoAssertFail == \A p \in Writers : w[p].pc # "assertfail"
\* reads are linearizable
ReadsLinearizable ==
    \A q \in Readers : r[q].pc = "ret" =>
        IF r[q].op = "get"
        THEN LET hit == r[q].node # End /\ key[r[q].node] = r[q].k IN
             \E s \in Window(q) : /\ hit = (r[q].k \in AbsKeys(s))
                                  /\ (hit => \E s2 \in Window(q) : <<r[q].k, r[q].x>> \in s2)
        ELSE \E s \in Window(q) : (IF r[q].node = End THEN 0 ELSE key[r[q].node]) = MaxLess(s, r[q].k)
\* all work done: every key put is present
AllDone == (\A p \in Writers : w[p].pc = "idle" /\ w[p].done = PutsPerWriter)
Bound == TRUE
=============================================================================
