SPECIFICATION GenSpec
CONSTANTS
  MaxRecs = 4
  InitRecs = 4
  TailLen = 0
  TsSet = {0, 1, 2}
INVARIANTS Emit
