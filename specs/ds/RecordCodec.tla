----------------------------- MODULE RecordCodec -----------------------------
(***************************************************************************)
(* Byte layouts of (C16, C20):                                             *)
(*   - the log-record header   structs.go header.Encode/Decode/DecodeFrom  *)
(*   - a whole WAL / value-log record  memtable.go logFile.encodeEntry /   *)
(*     decodeEntry, value.go safeRead.Entry                                *)
(*   - y.ValueStruct           y/iterator.go Encode/Decode/EncodedSize     *)
(*   - valuePointer            structs.go Encode/Decode                    *)
(* A record is   header | key | value | crc32c(header|key|value)  where,   *)
(* when the file has a data key, key|value is XORed with the AES-CTR       *)
(* stream of IV = baseIV(12 bytes) || BigEndian32(offset of the record).   *)
(* The specification predicts the header bytes exactly and the position    *)
(* and length of every part; CRC-32C and AES are uninterpreted here (the   *)
(* harness evaluates them with the Go standard library).                   *)
(***************************************************************************)
EXTENDS Varint

\* ---- header: meta, userMeta, uvarint(klen), uvarint(vlen), uvarint(expiresAt)
HeaderBytes(h) == <<h.meta, h.um>> \o PutUvarint(h.klen) \o PutUvarint(h.vlen) \o PutUvarint(h.exp)
MaxHeaderSize == 22    \* structs.go maxHeaderSize: 2 + 5 + 5 + 10

\* header.Decode(buf) = [h, n]
HeaderDecode(buf) ==
    LET a == Uvarint(SubSeq(buf, 3, Len(buf)))
        b == Uvarint(SubSeq(buf, 3 + a.n, Len(buf)))
        c == Uvarint(SubSeq(buf, 3 + a.n + b.n, Len(buf)))
    IN [h |-> [meta |-> buf[1], um |-> buf[2], klen |-> a.num, vlen |-> b.num, exp |-> c.num],
        n |-> 2 + a.n + b.n + c.n]

IsHeader(h) == h.meta \in 0..255 /\ h.um \in 0..255 /\ IsU32(h.klen) /\ IsU32(h.vlen) /\ IsNum(h.exp)
HeaderRoundTrip(h, junk) ==
    LET e == HeaderBytes(h) IN
    /\ Len(e) <= MaxHeaderSize
    /\ HeaderDecode(e \o junk) = [h |-> h, n |-> Len(e)]

\* ---- record layout (offsets are 0-based from the start of the record)
RecordLayout(h) ==
    LET hl == Len(HeaderBytes(h)) kl == NumVal(h.klen) vl == NumVal(h.vlen) IN
    [hlen |-> hl, keyAt |-> hl, valAt |-> hl + kl, crcAt |-> hl + kl + vl, len |-> hl + kl + vl + 4]

\* safeRead.Entry (the checksum-verifying reader used by iterate) refuses keys longer than 64 KiB
\* (value.go: h.klen > 1<<16 => errTruncate); decodeEntry has no such limit
Readable(h) == NumVal(h.klen) <= 65536

\* ---- y.ValueStruct: meta, userMeta, uvarint(expiresAt), value (length implied by the slice)
ValueStructBytes(v) == <<v.meta, v.um>> \o PutUvarint(v.exp) \o v.value
ValueStructSize(v) == 2 + SizeVarint(v.exp) + Len(v.value)
ValueStructDecode(buf) ==
    LET a == Uvarint(SubSeq(buf, 3, Len(buf))) IN
    [meta |-> buf[1], um |-> buf[2], exp |-> a.num, value |-> SubSeq(buf, 3 + a.n, Len(buf))]
ValueStructRoundTrip(v) == /\ ValueStructDecode(ValueStructBytes(v)) = v
                           /\ Len(ValueStructBytes(v)) = ValueStructSize(v)

\* ---- valuePointer: three little-endian uint32 in struct order Fid, Len, Offset (12 bytes)
\* a uint32 is given as its 4 little-endian bytes
VptrBytes(p) == p.fid \o p.len \o p.off
VptrDecode(buf) == [fid |-> SubSeq(buf, 1, 4), len |-> SubSeq(buf, 5, 8), off |-> SubSeq(buf, 9, 12)]
VptrRoundTrip(p) == Len(VptrBytes(p)) = 12 /\ VptrDecode(VptrBytes(p)) = p
=============================================================================
