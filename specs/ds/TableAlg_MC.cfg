SPECIFICATION Spec
CONSTANTS
  NKeys = 3
  NVers = 2
  MaxEntries = 6
  MaxRuns = 3
  Dirs = {FALSE, TRUE}
INVARIANTS SeqTheorems AgreeIter AgreeConcat
