SPECIFICATION Spec
CONSTANTS
  Mode = "header"
  Full = TRUE
INVARIANTS Theorems Emit
