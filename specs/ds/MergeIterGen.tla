----------------------------- MODULE MergeIterGen -----------------------------
(***************************************************************************)
(* Model and generator for C21.                                            *)
(* Inputs: NSrc sorted sequences over NKeys x NVers internal keys (every   *)
(* combination of subsets, including empty inputs and full overlap); the   *)
(* value token of an entry names its input, so precedence is observable.   *)
(* The state pairs the contract cursor (apos over Merged(srcs)) with the   *)
(* algorithm's tree; Agree says they show the same thing after every       *)
(* operation sequence.  With Gen = TRUE a history of operations and        *)
(* predicted observations is recorded and emitted when OpLen is reached.   *)
(***************************************************************************)
EXTENDS MergeIter, Json, TLC
CONSTANTS NKeys, NVers, NSrc, OpLen, Dirs, Gen,
          Shaped,        \* TRUE: generated sequences are Seek/Rewind followed by runs of Next (for -simulate)
          Incremental   \* TRUE: inputs are built by include/exclude steps (for -simulate); FALSE: enumerated in Init

IKeys == (1..NKeys) \X (1..NVers)
VARIABLES srcs, rev, apos, tree, hist, nops, bidx
vars == <<srcs, rev, apos, tree, hist, nops, bidx>>

SrcOf(i, S) == SortSet({[ik |-> x, val |-> i * 100 + x[1] * 10 + x[2]] : x \in S})
IKSeq == SortSet({[ik |-> x, val |-> 0] : x \in IKeys})      \* the domain in key order
NSlots == NSrc * Len(IKSeq)
Init == /\ IF Incremental THEN srcs = [i \in 1..NSrc |-> <<>>] /\ bidx = 0
           ELSE /\ \E f \in [1..NSrc -> SUBSET IKeys] : srcs = [i \in 1..NSrc |-> SrcOf(i, f[i])]
                /\ bidx = NSlots
        /\ rev \in Dirs
        /\ apos = -1
        /\ tree = BuildTree(1, NSrc)
        /\ hist = <<>> /\ nops = 0

\* build step: slot bidx decides whether input (bidx \div |IKeys|)+1 holds the (bidx % |IKeys|)+1-th key
Build == /\ bidx < NSlots
         /\ LET i == (bidx \div Len(IKSeq)) + 1
                x == IKSeq[(bidx % Len(IKSeq)) + 1].ik
            IN \E inc \in BOOLEAN :
                 srcs' = IF inc THEN [srcs EXCEPT ![i] = Append(@, [ik |-> x, val |-> i * 100 + x[1] * 10 + x[2]])] ELSE srcs
         /\ bidx' = bidx + 1
         /\ UNCHANGED <<rev, apos, tree, hist, nops>>
M == Merged(srcs)
Room == nops < OpLen /\ bidx = NSlots
\* shaping only restricts which sequences are generated: reposition every third operation or when exhausted
MayReposition == ~Shaped \/ nops % 3 = 0 \/ ~CValid(M, apos)
Rec(op, t, p) == [op |-> op, tk |-> t[1], tv |-> t[2], obs |-> CObs(M, p)]
Log(op, t, p) == /\ hist' = IF Gen THEN Append(hist, Rec(op, t, p)) ELSE hist
                 /\ nops' = IF Gen THEN nops + 1 ELSE nops      \* without history the state space is finite anyway
Rewind == /\ Room /\ MayReposition /\ apos' = CRewind(M, rev) /\ tree' = NRewind(srcs, rev, tree)
          /\ Log("rewind", <<0, 0>>, apos') /\ UNCHANGED <<srcs, rev, bidx>>
Seek(t) == /\ Room /\ MayReposition /\ apos' = CSeek(M, t, rev) /\ tree' = NSeek(srcs, rev, tree, t)
           /\ Log("seek", t, apos') /\ UNCHANGED <<srcs, rev, bidx>>
Next == /\ Room /\ CValid(M, apos) /\ apos' = CNext(M, apos, rev) /\ tree' = NNext(srcs, rev, tree)
        /\ Log("next", <<0, 0>>, apos') /\ UNCHANGED <<srcs, rev, bidx>>
MNext == Build \/ Rewind \/ Next \/ \E t \in IKeys : Seek(t)
Spec == Init /\ [][MNext]_vars

\* ---- properties
ContractOK == bidx = NSlots => MergedCorrect(srcs)
\* the algorithm shows exactly what the contract cursor shows (refinement, checked on every reachable state)
Agree == apos # -1 =>
           /\ NValid(srcs, tree) = CValid(M, apos)
           /\ (CValid(M, apos) => NEntry(srcs, tree) = M[apos])
Emit == (Gen /\ nops = OpLen) =>
          PrintT(<<"CASE", ToJson([srcs |-> srcs, rev |-> rev, ops |-> hist, merged |-> M])>>)
=============================================================================
