-------------------------------- MODULE Bloom --------------------------------
(***************************************************************************)
(* The bloom filter of y/bloom.go (C19): appendFilter / Filter.MayContain. *)
(*                                                                         *)
(* Hashes are W-bit words, W = 2*b, represented by their two halves        *)
(* <<hi, lo>> in base B = 2^b so that the 32-bit arithmetic of the code    *)
(* (B = 65536) can be evaluated with TLC's 32-bit integers; the very same  *)
(* definitions are model-checked exhaustively for the reduced word size    *)
(* B = 8 (6-bit hashes).                                                   *)
(*   delta = h>>17 | h<<15  = rotate right by b+1  (= swap halves, then    *)
(*           rotate right by one bit)                                      *)
(*   probe j (0-based) tests / sets bit (h + j*delta mod 2^W) mod nBits    *)
(* Build (appendFilter):  k = clamp(floor(bitsPerKey * 0.69), 1, 30),      *)
(*   nBits = max(MinBits, n*bitsPerKey) rounded up to a multiple of 8; the      *)
(*   filter is nBits/8 bytes followed by one byte holding k.               *)
(* Query (MayContain) recovers nBits = 8*(len-1) and k from the filter; a  *)
(* filter shorter than 2 bytes contains nothing, k > 30 matches anything.  *)
(***************************************************************************)
EXTENDS Integers, Sequences, FiniteSets

CONSTANTS B,          \* half-word base: 65536 for the real 32-bit hash, 8 for the reduced model
          MinBits     \* minimum filter size in bits: 64 in the code; 8 in the reduced model so that
                      \* nBits < 2^W and the modulo really wraps

Half == 0..(B - 1)
Hashes == Half \X Half

Delta(h) == <<(h[1] % 2) * (B \div 2) + (h[2] \div 2), (h[2] % 2) * (B \div 2) + (h[1] \div 2)>>
Add(h, d) == LET lo == h[2] + d[2] IN <<(h[1] + d[1] + (lo \div B)) % B, lo % B>>
\* h mod n for n*n < 2^31 (n <= 46340)
Mod(h, n) == ((h[1] % n) * (B % n) + h[2]) % n

\* h + j*delta mod 2^W, computed on the halves (j <= 29, so no intermediate exceeds 2^31)
AddMul(h, d, j) == LET lo == h[2] + j * d[2] IN <<(h[1] + j * d[1] + (lo \div B)) % B, lo % B>>
\* the set of bit positions probed for hash h: k probes, the j-th (0-based) at (h + j*delta) mod nBits
Pos(h, k, nBits) == LET d == Delta(h) IN {Mod(AddMul(h, d, j), nBits) : j \in 0..(k - 1)}

SMax2(a, b) == IF a > b THEN a ELSE b
KOf(bpk) == LET bp == SMax2(bpk, 0) k == (bp * 69) \div 100 IN IF k < 1 THEN 1 ELSE IF k > 30 THEN 30 ELSE k
NBitsOf(n, bpk) == LET raw == SMax2(n * SMax2(bpk, 0), MinBits) IN ((raw + 7) \div 8) * 8

\* a filter is [nbytes, k, bits]; bits = set of bit positions that are 1 (bit p is bit p%8 of byte p\div 8)
Build(hs, bpk) ==            \* hs: sequence of hashes (duplicates allowed)
    LET k == KOf(bpk) nBits == NBitsOf(Len(hs), bpk) IN
    [nbytes |-> nBits \div 8, k |-> k, bits |-> UNION {Pos(hs[i], k, nBits) : i \in 1..Len(hs)}]
FilterLen(f) == f.nbytes + 1

MayContain(f, h) ==
    IF FilterLen(f) < 2 THEN FALSE
    ELSE IF f.k > 30 THEN TRUE
    ELSE Pos(h, f.k, 8 * (FilterLen(f) - 1)) \subseteq f.bits

\* ---- properties ------------------------------------------------------------------
NoFalseNegative(hs, bpk) == LET f == Build(hs, bpk) IN \A i \in 1..Len(hs) : MayContain(f, hs[i])
\* the filter has no bit outside its byte range and nothing but the probed bits
BitsInRange(hs, bpk) == LET f == Build(hs, bpk) IN f.bits \subseteq 0..(8 * f.nbytes - 1)
\* clearing any probed bit of a member makes the filter deny it (every set bit is needed by someone)
BitsNecessary(hs, bpk) ==
    LET f == Build(hs, bpk) IN
    \A p \in f.bits : \E i \in 1..Len(hs) : ~MayContain([f EXCEPT !.bits = @ \ {p}], hs[i])
=============================================================================
