------------------------------ MODULE MergeIter ------------------------------
(***************************************************************************)
(* The merge iterator (C21): table.NewMergeIterator(iters, reverse).       *)
(*                                                                         *)
(* Contract.  The inputs are sorted sequences of entries (SortedSeq);      *)
(* input 1 is the earliest (newest memtable / lowest level).  The merged   *)
(* iterator is the SortedSeq cursor over Merged(srcs): the sorted union of *)
(* the internal keys, where an internal key present in several inputs      *)
(* appears once, with the entry of the EARLIEST input holding it.          *)
(*                                                                         *)
(* Algorithm (table/merge_iterator.go), modelled below as recursive        *)
(* functions on a tree value so that TLC can check it against the contract *)
(* (MergeIterAlg_MC): NewMergeIterator builds a balanced binary tree of    *)
(* two-way MergeIterators (split at len/2); each node keeps left, right,   *)
(* a pointer `small` and a copy curKey of the key last returned; fix()     *)
(* re-establishes small after a child moved; on equal keys the RIGHT child *)
(* is advanced, which is what gives the earlier input precedence.          *)
(***************************************************************************)
EXTENDS SortedSeq

\* ---- contract ------------------------------------------------------------------
AllIKs(srcs) == UNION {{srcs[i][j].ik : j \in 1..Len(srcs[i])} : i \in 1..Len(srcs)}
Holders(srcs, x) == {i \in 1..Len(srcs) : \E j \in 1..Len(srcs[i]) : srcs[i][j].ik = x}
EntryIn(s, x) == s[CHOOSE j \in 1..Len(s) : s[j].ik = x]
Merged(srcs) == SortSet({EntryIn(srcs[SMin(Holders(srcs, x))], x) : x \in AllIKs(srcs)})

MergedCorrect(srcs) ==
    LET m == Merged(srcs) IN
    /\ IsSorted(m)
    /\ {m[j].ik : j \in 1..Len(m)} = AllIKs(srcs)
    /\ \A j \in 1..Len(m) : \E i \in 1..Len(srcs) :
          /\ \E q \in 1..Len(srcs[i]) : srcs[i][q] = m[j]
          /\ \A i2 \in 1..(i - 1) : m[j].ik \notin {srcs[i2][q].ik : q \in 1..Len(srcs[i2])}

\* ---- algorithm -------------------------------------------------------------------
\* tree values: [t |-> "leaf", src, pos]  |  [t |-> "merge", l, r, small \in {"l","r"}, cur]
Leaf(i) == [t |-> "leaf", src |-> i, pos |-> 0]
RECURSIVE BuildTree(_, _)
BuildTree(lo, hi) ==                       \* NewMergeIterator(iters[lo..hi]), hi >= lo
    IF lo = hi THEN Leaf(lo)
    ELSE LET mid == lo + ((hi - lo + 1) \div 2) IN
         [t |-> "merge", l |-> BuildTree(lo, mid - 1), r |-> BuildTree(mid, hi), small |-> "l", cur |-> <<0, 0>>]

RECURSIVE NValid(_, _), NEntry(_, _)
SmallOf(n) == IF n.small = "l" THEN n.l ELSE n.r
BiggerOf(n) == IF n.small = "l" THEN n.r ELSE n.l
NValid(srcs, n) == IF n.t = "leaf" THEN CValid(srcs[n.src], n.pos) ELSE NValid(srcs, SmallOf(n))
NEntry(srcs, n) == IF n.t = "leaf" THEN srcs[n.src][n.pos] ELSE NEntry(srcs, SmallOf(n))
NKey(srcs, n) == NEntry(srcs, n).ik
Swap(n) == [n EXCEPT !.small = IF @ = "l" THEN "r" ELSE "l"]
SetCurrent(srcs, n) == IF NValid(srcs, n) THEN [n EXCEPT !.cur = NKey(srcs, n)] ELSE n   \* stale copy when invalid

RECURSIVE NNext(_, _, _), NextLoop(_, _, _), Fix(_, _, _), NRewind(_, _, _), NSeek(_, _, _, _)
\* MergeIterator.fix
Fix(srcs, rev, n) ==
    LET s == SmallOf(n) b == BiggerOf(n) IN
    IF ~NValid(srcs, b) THEN n
    ELSE IF ~NValid(srcs, s) THEN Swap(n)
    ELSE LET cmp == IKCmp(NKey(srcs, s), NKey(srcs, b)) IN
         IF cmp = 0
         THEN LET n2 == [n EXCEPT !.r = NNext(srcs, rev, n.r)] IN IF n.small = "r" THEN Swap(n2) ELSE n2
         ELSE IF cmp < 0 THEN (IF rev THEN Swap(n) ELSE n)
         ELSE (IF rev THEN n ELSE Swap(n))
\* the loop of MergeIterator.Next: advance small while it still shows curKey
NextLoop(srcs, rev, n) ==
    IF NValid(srcs, n) /\ NKey(srcs, n) = n.cur
    THEN LET moved == IF n.small = "l" THEN [n EXCEPT !.l = NNext(srcs, rev, n.l)]
                      ELSE [n EXCEPT !.r = NNext(srcs, rev, n.r)]
         IN NextLoop(srcs, rev, Fix(srcs, rev, moved))
    ELSE n
NNext(srcs, rev, n) ==
    IF n.t = "leaf" THEN [n EXCEPT !.pos = CNext(srcs[n.src], n.pos, rev)]
    ELSE SetCurrent(srcs, NextLoop(srcs, rev, n))
NRewind(srcs, rev, n) ==
    IF n.t = "leaf" THEN [n EXCEPT !.pos = CRewind(srcs[n.src], rev)]
    ELSE SetCurrent(srcs, Fix(srcs, rev, [n EXCEPT !.l = NRewind(srcs, rev, n.l), !.r = NRewind(srcs, rev, n.r)]))
NSeek(srcs, rev, n, t) ==
    IF n.t = "leaf" THEN [n EXCEPT !.pos = CSeek(srcs[n.src], t, rev)]
    ELSE SetCurrent(srcs, Fix(srcs, rev, [n EXCEPT !.l = NSeek(srcs, rev, n.l, t), !.r = NSeek(srcs, rev, n.r, t)]))
=============================================================================
