---------------------------- MODULE RecordCodecGen ----------------------------
(***************************************************************************)
(* Boundary classes of the record fields, the theorems of RecordCodec over *)
(* their full product (checked by TLC), and the generator that emits, for  *)
(* every combination, the bytes and layout the specification predicts.     *)
(* Mode "header": header / value-struct / value-pointer cases (C20).       *)
(* Mode "record": whole-record cases with key/value sizes that a real      *)
(* record can have (C16).                                                  *)
(***************************************************************************)
EXTENDS RecordCodec, Json, TLC
CONSTANTS Mode,
          Full      \* TRUE: every class below; FALSE: a reduced product for the quick tier

Metas == IF Full THEN {0, 2, 64, 128, 255} ELSE {0, 64, 255}       \* none, bitValuePointer, bitTxn, bitFinTxn, all bits
UMs == {0, 255}
Exps == {<<0>>, <<1>>, <<127>>, Digits(128), Pow2_32, Pow2_63, Pow2_64m2, Pow2_64m1}
\* uint32 header fields (header mode): every varint length boundary up to 2^32-1
U32s == {<<0>>, <<1>>, <<127>>, Digits(128), Digits(16383), Digits(16384), Digits(65000), Digits(65536),
         Digits(2097151), Digits(2097152), Digits(268435455), Digits(268435456), Pow2_32m1}
\* key / value lengths a record of the harness really gets (record mode)
KLens == {1, 127, 128, 16383, 16384, 65000, 65536, 65537}
\* (32767: with a 1-byte key the payload is exactly 32 KiB, with any longer key it crosses that chunk size)
VLens == IF Full THEN {0, 1, 127, 128, 16383, 16384, 32767, 2097152} ELSE {0, 1, 127, 128, 16383, 16384, 2097152}
\* record offsets: first record, byte/word boundaries, and the top of the 32-bit range where the
\* AES-CTR counter (IV = baseIV || offset) carries into the base IV
Offsets == IF Full THEN {Digits(20), Digits(255), Digits(256), Digits(65535), Digits(65536),
                         <<112, 127, 127, 127, 15>>, Pow2_32m1}
           ELSE {Digits(20), Digits(65535), Pow2_32m1}
Junk == {<<>>, <<0>>, <<255, 255>>, <<128, 1>>}
LE32s == {<<0, 0, 0, 0>>, <<1, 0, 0, 0>>, <<0, 1, 0, 0>>, <<255, 255, 255, 127>>, <<0, 0, 0, 128>>,
          <<255, 255, 255, 255>>, <<20, 0, 0, 0>>}
Values == {<<>>, <<0>>, <<255>>, <<128, 1>>, <<1, 2, 3>>}

VARIABLE c
Headers == [meta : Metas, um : UMs, klen : U32s, vlen : U32s, exp : Exps]
Records == [meta : Metas, um : UMs, klen : {Digits(n) : n \in KLens}, vlen : {Digits(n) : n \in VLens},
            exp : Exps, off : Offsets]
VStructs == [meta : Metas, um : UMs, exp : Exps, value : Values]
Vptrs == [fid : LE32s, len : LE32s, off : LE32s]

Init == \/ Mode = "header" /\ \/ \E h \in Headers : c = [kind |-> "header", h |-> h, bytes |-> HeaderBytes(h)]
                              \/ \E v \in VStructs : c = [kind |-> "vstruct", v |-> v, bytes |-> ValueStructBytes(v),
                                                          size |-> ValueStructSize(v)]
                              \/ \E p \in Vptrs : c = [kind |-> "vptr", p |-> p, bytes |-> VptrBytes(p)]
        \/ Mode = "record" /\ \E r \in Records :
              LET h == [meta |-> r.meta, um |-> r.um, klen |-> r.klen, vlen |-> r.vlen, exp |-> r.exp] IN
              c = [kind |-> "record", h |-> h, off |-> r.off, klen |-> NumVal(r.klen), vlen |-> NumVal(r.vlen),
                   hdr |-> HeaderBytes(h), lay |-> RecordLayout(h), readable |-> Readable(h)]
Next == UNCHANGED c
Spec == Init /\ [][Next]_c

Theorems ==
    /\ c.kind = "header" => IsHeader(c.h) /\ \A j \in Junk : HeaderRoundTrip(c.h, j)
    /\ c.kind = "record" => IsHeader(c.h) /\ HeaderRoundTrip(c.h, <<7, 7>>)
                            /\ c.lay.len = Len(c.hdr) + c.klen + c.vlen + 4
    /\ c.kind = "vstruct" => ValueStructRoundTrip(c.v)
    /\ c.kind = "vptr" => VptrRoundTrip(c.p)
ASSUME \A d \in Exps \cup U32s : IsNum(d) /\ \A j \in Junk : VarintRoundTrip(d, j)
ASSUME \A d \in U32s : IsU32(d)
Emit == PrintT(<<"CASE", ToJson(c)>>)
=============================================================================
