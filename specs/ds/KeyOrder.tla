------------------------------ MODULE KeyOrder ------------------------------
(***************************************************************************)
(* Internal key encoding and order (C20): y.KeyWithTs / ParseKey / ParseTs *)
(* / CompareKeys / SameKey (y/y.go:113-155).                               *)
(*                                                                         *)
(* Byte level: a user key is a non-empty sequence of bytes, a version is   *)
(* an 8-byte big-endian number.  KeyWithTs appends the bytewise complement *)
(* of the version (= MaxUint64 - version), CompareKeys compares the user   *)
(* key part with bytes.Compare and then the 8-byte suffix.                 *)
(* Abstract level: an item is [syms, long, vi]; the order the property     *)
(* demands is user key ascending (bytewise), then version DESCENDING.      *)
(* The theorems below (checked by TLC for every pair of the boundary       *)
(* domain) say the byte-level functions implement the abstract order and   *)
(* round-trip.                                                             *)
(*                                                                         *)
(* Long keys: an item with long = TRUE stands for the byte string          *)
(* syms[1]^N \o Tail(syms) with N = LongRun (64998 in the harness, so that *)
(* the longest key has the 65000 bytes the API allows).  In the model the  *)
(* run is ModelRun = 4 > every plain key length; comparisons between a     *)
(* plain key (<= 3 bytes) and a long key are decided within the first 3    *)
(* positions or by the plain key being a proper prefix, and two long keys  *)
(* have the same run length, so the order is the same for every run length *)
(* >= 4 (argument recorded in DESIGN_ds.md).                               *)
(***************************************************************************)
EXTENDS Integers, Sequences, FiniteSets

CONSTANTS Syms,      \* set of byte values used as key symbols
          MaxLen,    \* plain keys have 1..MaxLen symbols
          LongLen,   \* long keys have bodies of 1..LongLen symbols (0 = no long keys)
          ModelRun   \* run length standing for the long run in the model

\* the 7 boundary versions as big-endian 8-byte tuples, ascending
Versions == <<
    <<0, 0, 0, 0, 0, 0, 0, 0>>,                   \* 0
    <<0, 0, 0, 0, 0, 0, 0, 1>>,                   \* 1
    <<0, 0, 0, 0, 0, 0, 0, 2>>,                   \* 2
    <<0, 0, 0, 1, 0, 0, 0, 0>>,                   \* 2^32
    <<128, 0, 0, 0, 0, 0, 0, 0>>,                 \* 2^63
    <<255, 255, 255, 255, 255, 255, 255, 254>>,   \* 2^64-2
    <<255, 255, 255, 255, 255, 255, 255, 255>> >> \* 2^64-1
NV == Len(Versions)

\* ---- byte level ------------------------------------------------------------
\* bytes.Compare
RECURSIVE BCmp(_, _)
BCmp(a, b) == IF a = <<>> THEN (IF b = <<>> THEN 0 ELSE -1)
              ELSE IF b = <<>> THEN 1
              ELSE IF Head(a) < Head(b) THEN -1
              ELSE IF Head(a) > Head(b) THEN 1
              ELSE BCmp(Tail(a), Tail(b))

Compl(v) == [i \in 1..8 |-> 255 - v[i]]                  \* MaxUint64 - v, byte by byte
KeyWithTs(k, v) == k \o Compl(v)
KPart(e) == SubSeq(e, 1, Len(e) - 8)
SPart(e) == SubSeq(e, Len(e) - 7, Len(e))
ParseKey(e) == IF Len(e) < 8 THEN <<>> ELSE KPart(e)
ParseTs(e) == IF Len(e) <= 8 THEN Versions[1] ELSE Compl(SPart(e))
CompareKeys(e1, e2) == LET c == BCmp(KPart(e1), KPart(e2)) IN IF c # 0 THEN c ELSE BCmp(SPart(e1), SPart(e2))
SameKey(e1, e2) == Len(e1) = Len(e2) /\ ParseKey(e1) = ParseKey(e2)

\* ---- abstract level -----------------------------------------------------------
Run(c, n) == [i \in 1..n |-> c]
Expand(it) == IF it.long THEN Run(it.syms[1], ModelRun) \o Tail(it.syms) ELSE it.syms
Enc(it) == KeyWithTs(Expand(it), Versions[it.vi])

RECURSIVE SeqsOf(_)
SeqsOf(n) == IF n = 0 THEN {<<>>} ELSE {<<c>> \o s : c \in Syms, s \in SeqsOf(n - 1)}
PlainKeys == UNION {SeqsOf(n) : n \in 1..MaxLen}
LongKeys == UNION {SeqsOf(n) : n \in 1..LongLen}
Items == {[syms |-> k, long |-> FALSE, vi |-> i] : k \in PlainKeys, i \in 1..NV}
         \cup {[syms |-> k, long |-> TRUE, vi |-> i] : k \in LongKeys, i \in 1..NV}

\* the order the property states: user key ascending, then version descending
AbsCmp(a, b) == LET c == BCmp(Expand(a), Expand(b)) IN
                IF c # 0 THEN c ELSE IF a.vi > b.vi THEN -1 ELSE IF a.vi < b.vi THEN 1 ELSE 0
AbsLess(a, b) == AbsCmp(a, b) < 0
SameUserKey(a, b) == Expand(a) = Expand(b)

\* ---- theorems -------------------------------------------------------------------
VersionsAscending == \A i \in 1..(NV - 1) : BCmp(Versions[i], Versions[i + 1]) < 0
RoundTrip(a) == /\ ParseKey(Enc(a)) = Expand(a)
                /\ ParseTs(Enc(a)) = Versions[a.vi]
                /\ Len(Enc(a)) = Len(Expand(a)) + 8
OrderIso(a, b) == CompareKeys(Enc(a), Enc(b)) = AbsCmp(a, b)
SameKeyIff(a, b) == SameKey(Enc(a), Enc(b)) <=> SameUserKey(a, b)
\* why CompareKeys does not simply use bytes.Compare on the whole key (comment in y.go):
\* there are pairs on which the whole-key comparison disagrees with the abstract order
WholeKeyCompareDiffers == \E a, b \in Items : BCmp(Enc(a), Enc(b)) # AbsCmp(a, b)
\* AbsCmp is a strict total order on Items
TotalOrder(a, b) == /\ (AbsCmp(a, b) = 0 <=> a = b)
                    /\ AbsCmp(a, b) = -AbsCmp(b, a)
=============================================================================
