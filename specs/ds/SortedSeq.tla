----------------------------- MODULE SortedSeq -----------------------------
(***************************************************************************)
(* Sorted sequences of versioned entries and the cursor semantics every    *)
(* badger iterator promises (y.Iterator: Rewind / Seek / Next / Valid /    *)
(* Key / Value).  Reused by TableOps (C18), MergeIter (C21) and Skiplist   *)
(* (C22).                                                                  *)
(*                                                                         *)
(* An internal key is a pair <<k, v>> (user key, version).  The order is   *)
(* the one of y.CompareKeys: user key ascending, then version DESCENDING.  *)
(* An entry is a record with a field ik (internal key) and val (an opaque  *)
(* value token; the harness concretises it to a full y.ValueStruct).       *)
(*                                                                         *)
(* A cursor is a position 0..Len(s)+1 in a sorted sequence s; 0 is "before *)
(* the first entry", Len(s)+1 is "past the last entry"; both are invalid.  *)
(* A forward iterator (opt = 0) and a reverse iterator (opt = REVERSED)    *)
(* differ in Rewind, Seek and Next:                                        *)
(*     forward:  Rewind -> 1          Seek(t) -> first entry >= t          *)
(*               Next -> pos + 1                                           *)
(*     reverse:  Rewind -> Len(s)     Seek(t) -> last entry <= t           *)
(*               Next -> pos - 1      (the code calls this seekForPrev)    *)
(* Code anchors: table/iterator.go (Iterator.seek/seekForPrev/next/prev,   *)
(* ConcatIterator), skl/skl.go (findNear, UniIterator), y/iterator.go.     *)
(***************************************************************************)
EXTENDS Integers, Sequences, FiniteSets

IKLess(a, b) == a[1] < b[1] \/ (a[1] = b[1] /\ a[2] > b[2])
IKLeq(a, b)  == a = b \/ IKLess(a, b)
\* three-way comparison, the result convention of y.CompareKeys
IKCmp(a, b)  == IF a = b THEN 0 ELSE IF IKLess(a, b) THEN -1 ELSE 1

SMin(S) == CHOOSE x \in S : \A y \in S : x <= y
SMax(S) == CHOOSE x \in S : \A y \in S : y <= x

IsSorted(s) == \A i \in 1..(Len(s) - 1) : IKLess(s[i].ik, s[i + 1].ik)

\* the sorted sequence of a set of entries with pairwise distinct internal keys
LeastOf(S) == CHOOSE e \in S : \A f \in S : IKLeq(e.ik, f.ik)
RECURSIVE SortSet(_)
SortSet(S) == IF S = {} THEN <<>> ELSE LET m == LeastOf(S) IN <<m>> \o SortSet(S \ {m})

RECURSIVE Flatten(_)
Flatten(ss) == IF ss = <<>> THEN <<>> ELSE Head(ss) \o Flatten(Tail(ss))

Reverse(s) == [i \in 1..Len(s) |-> s[Len(s) + 1 - i]]

\* ---- positions
SeekGE(s, t) == LET c == {i \in 1..Len(s) : IKLeq(t, s[i].ik)} IN IF c = {} THEN Len(s) + 1 ELSE SMin(c)
SeekLE(s, t) == LET c == {i \in 1..Len(s) : IKLeq(s[i].ik, t)} IN IF c = {} THEN 0 ELSE SMax(c)

CValid(s, p)       == p \in 1..Len(s)
CRewind(s, rev)    == IF rev THEN Len(s) ELSE 1
CSeek(s, t, rev)   == IF rev THEN SeekLE(s, t) ELSE SeekGE(s, t)
CNext(s, p, rev)   == IF rev THEN p - 1 ELSE p + 1        \* only called on a valid cursor

NoObs == [valid |-> FALSE, k |-> 0, v |-> 0, val |-> 0]
CObs(s, p) == IF CValid(s, p)
              THEN [valid |-> TRUE, k |-> s[p].ik[1], v |-> s[p].ik[2], val |-> s[p].val]
              ELSE NoObs

\* the sequence of entries a full scan (Rewind, then Next while Valid) yields
Scan(s, rev) == IF rev THEN Reverse(s) ELSE s

(***************************************************************************)
(* Properties of the operators (checked by TLC for every sorted sequence   *)
(* over a small key domain in SortedSeq_MC).                               *)
(***************************************************************************)
SeekGECorrect(s, t) ==
    LET p == SeekGE(s, t) IN
    /\ p \in 1..(Len(s) + 1)
    /\ (p <= Len(s) => IKLeq(t, s[p].ik))
    /\ \A i \in 1..(p - 1) : IKLess(s[i].ik, t)

SeekLECorrect(s, t) ==
    LET p == SeekLE(s, t) IN
    /\ p \in 0..Len(s)
    /\ (p >= 1 => IKLeq(s[p].ik, t))
    /\ \A i \in (p + 1)..Len(s) : IKLess(t, s[i].ik)

\* the implementation strategy of table.Iterator.seekForPrev: seek >= t, step back unless exact
SeekForPrevLemma(s, t) ==
    LET p == SeekGE(s, t) IN
    SeekLE(s, t) = IF p <= Len(s) /\ s[p].ik = t THEN p ELSE p - 1

\* a reverse iterator over s behaves as a forward iterator over Reverse(s) under the reversed order
RECURSIVE Walk(_, _, _, _)
Walk(s, p, rev, fuel) == IF ~CValid(s, p) \/ fuel = 0 THEN <<>>
                         ELSE <<s[p]>> \o Walk(s, CNext(s, p, rev), rev, fuel - 1)
ScanCorrect(s) == /\ Walk(s, CRewind(s, FALSE), FALSE, Len(s) + 1) = s
                  /\ Walk(s, CRewind(s, TRUE), TRUE, Len(s) + 1) = Reverse(s)
\* scanning from a seek yields exactly the suffix >= t (forward) / the reversed prefix <= t (reverse)
SeekScanCorrect(s, t) ==
    /\ Walk(s, CSeek(s, t, FALSE), FALSE, Len(s) + 1) = SelectSeq(s, LAMBDA e : IKLeq(t, e.ik))
    /\ Walk(s, CSeek(s, t, TRUE), TRUE, Len(s) + 1) = Reverse(SelectSeq(s, LAMBDA e : IKLeq(e.ik, t)))
=============================================================================
