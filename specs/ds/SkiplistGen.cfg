SPECIFICATION Spec
CONSTANTS
  NKeys = 2
  NVers = 2
  OpLen = 3
  MaxPuts = 3
  Gen = TRUE
  Shaped = FALSE
INVARIANTS MapOK GetOK ScanOK Emit
