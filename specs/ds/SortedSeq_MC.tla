---------------------------- MODULE SortedSeq_MC ----------------------------
(* Exhaustive check of the SortedSeq operator properties: every sorted sequence over
   NKeys x NVers internal keys, every seek target (including absent keys). *)
EXTENDS SortedSeq, TLC
CONSTANTS NKeys, NVers
IKeys == (1..NKeys) \X (1..NVers)
VARIABLE s
Init == \E S \in SUBSET IKeys : s = SortSet({[ik |-> x, val |-> x[1] * 10 + x[2]] : x \in S})
Next == UNCHANGED s
Spec == Init /\ [][Next]_s
Sorted == IsSorted(s)
SeekOK == \A t \in IKeys : SeekGECorrect(s, t) /\ SeekLECorrect(s, t) /\ SeekForPrevLemma(s, t)
ScanOK == ScanCorrect(s) /\ \A t \in IKeys : SeekScanCorrect(s, t)
=============================================================================
