----------------------------- MODULE SkiplistGen -----------------------------
(***************************************************************************)
(* Sequential model and generator for C22: histories of Put / Get and      *)
(* operations of one bidirectional skl.Iterator, with the result the       *)
(* contract predicts for every call.  Values are a fresh counter, so every *)
(* overwrite is observable.                                                *)
(***************************************************************************)
EXTENDS Skiplist, Json, TLC
CONSTANTS NKeys, NVers, OpLen, MaxPuts, Gen, Shaped

IKeys == (1..NKeys) \X (1..NVers)
VARIABLES m, cur, nput, hist, nops
vars == <<m, cur, nput, hist, nops>>

Init == m = {} /\ cur = None /\ nput = 0 /\ hist = <<>> /\ nops = 0
Room == nops < OpLen
Log(rec) == /\ hist' = IF Gen THEN Append(hist, rec) ELSE hist
            /\ nops' = IF Gen THEN nops + 1 ELSE nops
\* shaping (simulation only): alternate writes and reads so that iterators run over a changing map
WriteTurn == ~Shaped \/ nops % 2 = 0 \/ nput = 0
ReadTurn == ~Shaped \/ nops % 2 = 1 \/ nput = MaxPuts
MayReposition == ~Shaped \/ cur = None \/ nops % 6 = 1

DoPut(x) == /\ Room /\ WriteTurn /\ nput < MaxPuts
            /\ m' = Put(m, x, nput + 1) /\ nput' = nput + 1
            /\ Log([op |-> "put", k |-> x[1], v |-> x[2], val |-> nput + 1, res |-> NoObs])
            /\ UNCHANGED cur
DoGet(x) == /\ Room /\ ReadTurn
            /\ LET r == Get(m, x[1], x[2]) IN
               Log([op |-> "get", k |-> x[1], v |-> x[2], val |-> 0,
                    res |-> [valid |-> r.found, k |-> IF r.found THEN x[1] ELSE 0, v |-> r.v, val |-> r.val]])
            /\ UNCHANGED <<m, cur, nput>>
DoIter(op, t) == /\ Room /\ ReadTurn
                 /\ (op \in {"next", "prev"} => cur # None)
                 /\ (op \notin {"next", "prev"} => MayReposition)
                 /\ (op \in {"seek", "seekprev"} <=> t # None)
                 /\ cur' = ItApply(m, op, t, cur)
                 /\ Log([op |-> op, k |-> t[1], v |-> t[2], val |-> 0, res |-> ItObs(m, cur')])
                 /\ UNCHANGED <<m, nput>>
\* re-read the value at the current node (an overwrite of the node's key must be visible)
DoValue == /\ Room /\ ReadTurn /\ cur # None
           /\ Log([op |-> "value", k |-> cur[1], v |-> cur[2], val |-> 0, res |-> ItObs(m, cur)])
           /\ UNCHANGED <<m, cur, nput>>
Next == \/ \E x \in IKeys : DoPut(x) \/ DoGet(x)
        \/ \E op \in IterOps, t \in IKeys \cup {None} : DoIter(op, t)
        \/ DoValue
Spec == Init /\ [][Next]_vars

\* ---- properties of the contract
MapOK == DistinctKeys(m) /\ (cur # None => Has(m, cur)) /\ NextPrevInverse(m)
GetOK == \A x \in IKeys : GetCorrect(m, x[1], x[2])
ScanOK == LET s == MSeq(m) IN
          /\ Walk(s, 1, FALSE, Len(s) + 1) = s
          /\ \A p \in 1..Len(s) : ItNext(m, s[p].ik) = KeyAt(s, p + 1) /\ ItPrev(m, s[p].ik) = KeyAt(s, p - 1)
Emit == (Gen /\ nops = OpLen) => PrintT(<<"CASE", ToJson([ops |-> hist])>>)
=============================================================================
