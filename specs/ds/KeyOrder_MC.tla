---------------------------- MODULE KeyOrder_MC ----------------------------
(* Exhaustive check of the KeyOrder theorems over all pairs of the boundary domain; one
   state per item so that TLC's workers share the pairs. *)
EXTENDS KeyOrder, TLC
VARIABLE a
Init == a \in Items
Next == UNCHANGED a
Spec == Init /\ [][Next]_a
PairTheorems == /\ RoundTrip(a)
                /\ \A b \in Items : OrderIso(a, b) /\ SameKeyIff(a, b) /\ TotalOrder(a, b)
ASSUME VersionsAscending
ASSUME MaxLen >= 2 => WholeKeyCompareDiffers
=============================================================================
