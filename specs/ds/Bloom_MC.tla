------------------------------ MODULE Bloom_MC ------------------------------
(* Exhaustive check of NoFalseNegative for the reduced word size: every multiset of up to
   MaxKeys W-bit hashes (B = 8: 64 hash values), every bits-per-key setting of BPKs.  The key
   multiset grows one hash per step (in non-decreasing order, so each multiset is one state)
   and the invariants are evaluated on every state. *)
EXTENDS Bloom, TLC
CONSTANTS MaxKeys, BPKs
VARIABLES hs, bpk
Num(h) == h[1] * B + h[2]
Init == bpk \in BPKs /\ hs = <<>>
Grow == /\ Len(hs) < MaxKeys
        /\ \E h \in Hashes : (hs # <<>> => Num(hs[Len(hs)]) <= Num(h)) /\ hs' = Append(hs, h)
        /\ UNCHANGED bpk
Next == Grow
Spec == Init /\ [][Next]_<<hs, bpk>>
NFN == NoFalseNegative(hs, bpk)
InRange == BitsInRange(hs, bpk)
\* repeated addition (the loop of the code: h += delta) equals the closed form used by Pos
RECURSIVE Iter(_, _, _)
Iter(h, d, j) == IF j = 0 THEN h ELSE Iter(Add(h, d), d, j - 1)
AddMulIsLoop == \A i \in 1..Len(hs) : \A j \in 0..29 : AddMul(hs[i], Delta(hs[i]), j) = Iter(hs[i], Delta(hs[i]), j)
Necessary == BitsNecessary(hs, bpk)
\* the code's derivation of k and nBits round-trips through the encoded filter
Shape == LET f == Build(hs, bpk) IN f.k \in 1..30 /\ f.nbytes * 8 >= MinBits /\ 8 * (FilterLen(f) - 1) = NBitsOf(Len(hs), bpk)
=============================================================================
