SPECIFICATION TraceSpec
CONSTRAINT HighWater
POSTCONDITION Accepted
