----------------------------- MODULE LogIterate -----------------------------
(***************************************************************************)
(* logFile.iterate (memtable.go:447): replay of a WAL / value-log file in  *)
(* transaction units (C16).                                                *)
(*                                                                         *)
(* A log is a sequence of readable records followed by anything that       *)
(* safeRead.Entry rejects (end of file, zeroed space, a record whose       *)
(* checksum does not match, a key longer than 64 KiB): reading stops       *)
(* there.  Each readable record is of one kind:                            *)
(*    "plain"  neither bitTxn nor bitFinTxn (e.g. entries moved by GC)     *)
(*    "txn"    bitTxn set; ts = version in its key                         *)
(*    "fin"    bitFinTxn set (and not bitTxn); ts = the number in its      *)
(*             value, or -1 when the value is not a decimal number         *)
(* (a record with both bits is handled by the bitTxn case of the code and  *)
(* is a "txn" record here).                                                *)
(*                                                                         *)
(* The variables mirror the locals of iterate: lastCommit, the buffered    *)
(* entries, validEndOffset (here: the number of records before the valid   *)
(* end).  `delivered` is the sequence of record indices handed to the      *)
(* callback.  The machine models the code AS IT IS, including the use of   *)
(* lastCommit = 0 as "no transaction open" (so a transaction with commit   *)
(* timestamp 0 is not tracked; see UnitsAgree, stated for TsSet >= 1).     *)
(***************************************************************************)
EXTENDS Integers, Sequences, FiniteSets

CONSTANTS MaxRecs,    \* logs have 0..MaxRecs readable records
          TsSet       \* timestamps used by txn / fin records

Kinds == {"plain", "txn", "fin"}
RecSet == [kind : {"plain"}, ts : {0}] \cup [kind : {"txn"}, ts : TsSet] \cup [kind : {"fin"}, ts : TsSet \cup {-1}]

VARIABLES recs,        \* the readable records (chosen in Init, never changes)
          i,           \* number of records consumed so far
          lastCommit, buf, delivered, validEnd,
          done         \* the loop has been left (break or end of readable records)
vars == <<recs, i, lastCommit, buf, delivered, validEnd, done>>

RECURSIVE SeqsUpTo(_)
SeqsUpTo(n) == IF n = 0 THEN {<<>>} ELSE LET S == SeqsUpTo(n - 1) IN S \cup {Append(s, r) : s \in {x \in S : Len(x) = n - 1}, r \in RecSet}

Init == /\ recs \in SeqsUpTo(MaxRecs)
        /\ i = 0 /\ lastCommit = 0 /\ buf = <<>> /\ delivered = <<>> /\ validEnd = 0 /\ done = FALSE

Stop == done' = TRUE /\ UNCHANGED <<recs, i, lastCommit, buf, delivered, validEnd>>

\* one turn of the loop over the next readable record
Step ==
    /\ ~done
    /\ IF i = Len(recs) THEN Stop       \* safeRead.Entry fails: io.EOF / errTruncate / zero entry
       ELSE LET r == recs[i + 1] IN
            CASE r.kind = "txn" ->
                    LET eff == IF lastCommit = 0 THEN r.ts ELSE lastCommit IN
                    IF eff # r.ts THEN Stop
                    ELSE /\ lastCommit' = eff /\ buf' = Append(buf, i + 1) /\ i' = i + 1
                         /\ UNCHANGED <<recs, delivered, validEnd, done>>
              [] r.kind = "fin" ->
                    IF r.ts = -1 \/ lastCommit # r.ts THEN Stop
                    ELSE /\ lastCommit' = 0 /\ validEnd' = i + 1 /\ delivered' = delivered \o buf
                         /\ buf' = <<>> /\ i' = i + 1 /\ UNCHANGED <<recs, done>>
              [] OTHER ->
                    IF lastCommit # 0 THEN Stop
                    ELSE /\ validEnd' = i + 1 /\ delivered' = Append(delivered, i + 1) /\ i' = i + 1
                         /\ UNCHANGED <<recs, lastCommit, buf, done>>
Next == Step
Spec == Init /\ [][Next]_vars

(***************************************************************************)
(* The intended result, as a function of the log: greedy parse into units. *)
(* A unit is a plain record, or a non-empty run of txn records of one      *)
(* timestamp followed by the fin record of that timestamp ... except that  *)
(* the code also accepts a fin record with no txn record before it when    *)
(* its number is 0 (lastCommit = 0 matches) - kept, it delivers nothing.   *)
(***************************************************************************)
RECURSIVE RunEnd(_, _, _)
\* index of the last txn record of the run of timestamp ts starting at j (j-1 if none)
RunEnd(rs, j, ts) == IF j <= Len(rs) /\ rs[j].kind = "txn" /\ rs[j].ts = ts THEN RunEnd(rs, j + 1, ts) ELSE j - 1
RECURSIVE Units(_, _, _)
\* parse from record j on, with acc = [d |-> delivered so far, ve |-> valid end so far]
Units(rs, j, acc) ==
    IF j > Len(rs) THEN acc
    ELSE CASE rs[j].kind = "plain" -> Units(rs, j + 1, [d |-> Append(acc.d, j), ve |-> j])
           [] rs[j].kind = "txn" ->
                LET e == RunEnd(rs, j, rs[j].ts) IN
                IF e + 1 <= Len(rs) /\ rs[e + 1].kind = "fin" /\ rs[e + 1].ts = rs[j].ts
                THEN Units(rs, e + 2, [d |-> acc.d \o [x \in 1..(e - j + 1) |-> j + x - 1], ve |-> e + 1])
                ELSE acc
           [] OTHER -> IF rs[j].ts = 0 THEN Units(rs, j + 1, [d |-> acc.d, ve |-> j]) ELSE acc

Intended == Units(recs, 1, [d |-> <<>>, ve |-> 0])

\* ---- properties (for TsSet >= 1) ---------------------------------------------
TypeOK == /\ i \in 0..Len(recs) /\ validEnd \in 0..i /\ lastCommit \in TsSet \cup {0}
          /\ \A x \in 1..Len(buf) : buf[x] \in 1..i
UnitsAgree == done => delivered = Intended.d /\ validEnd = Intended.ve
\* records are delivered in write order, each at most once
InOrder == \A x \in 1..(Len(delivered) - 1) : delivered[x] < delivered[x + 1]
\* a transactional entry is delivered only if its end marker follows its run and lies before validEnd
TxnAtomic == \A x \in 1..Len(delivered) :
    LET j == delivered[x] IN
    recs[j].kind = "txn" =>
        LET e == RunEnd(recs, j, recs[j].ts) IN
        /\ e + 1 <= validEnd /\ recs[e + 1].kind = "fin" /\ recs[e + 1].ts = recs[j].ts
        /\ \A y \in j..e : \E z \in 1..Len(delivered) : delivered[z] = y
\* everything before validEnd that is not an end marker has been delivered, nothing after it
ValidEndExact == /\ \A x \in 1..Len(delivered) : delivered[x] <= validEnd
                 /\ \A j \in 1..validEnd : recs[j].kind # "fin" => \E z \in 1..Len(delivered) : delivered[z] = j
                 /\ (validEnd > 0 => recs[validEnd].kind # "txn")
\* buffered entries are exactly the txn records after validEnd, and belong to one transaction
BufferShape == /\ \A x \in 1..Len(buf) : buf[x] = validEnd + x /\ recs[buf[x]].kind = "txn"
               /\ (buf # <<>> => \A x \in 1..Len(buf) : recs[buf[x]].ts = lastCommit)
               /\ (~done => i = validEnd + Len(buf))
Termination == <>done
=============================================================================
