SPECIFICATION Spec
CONSTANTS
  NKeys = 2
  NVers = 1
  NSrc = 2
  OpLen = 3
  Dirs = {FALSE, TRUE}
  Gen = TRUE
  Incremental = FALSE
  Shaped = FALSE
INVARIANTS ContractOK Agree Emit
