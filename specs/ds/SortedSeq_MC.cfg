SPECIFICATION Spec
CONSTANTS
  NKeys = 3
  NVers = 2
INVARIANTS Sorted SeekOK ScanOK
