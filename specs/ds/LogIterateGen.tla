---------------------------- MODULE LogIterateGen ----------------------------
(***************************************************************************)
(* Generator for C16 (iterate part).  A case carries the records of a log, *)
(* what the specification says iterate delivers (indices of records, in    *)
(* order) and where the valid end is, and a snapshot [ve, nd] after each   *)
(* consumed record: the result iterate must produce when the log is cut,   *)
(* zeroed or corrupted right after that record (the harness damages the    *)
(* next record at every byte position and truncates at every length).      *)
(*                                                                         *)
(* Two shapes:                                                             *)
(*  InitRecs = MaxRecs: every log of up to MaxRecs records (exhaustive).   *)
(*  InitRecs = 0: logs are grown while the machine runs: a record is       *)
(*    appended only when everything before it has been consumed, so a log  *)
(*    is a well-formed prefix, optionally one record that makes iterate    *)
(*    stop, and at most TailLen unread records after it.  This reaches long   *)
(*    logs (records after the stop point cannot influence the result).     *)
(***************************************************************************)
EXTENDS LogIterate, Json, TLC
CONSTANTS InitRecs, TailLen
VARIABLE snaps
gvars == <<vars, snaps>>
GInit == /\ recs \in SeqsUpTo(InitRecs)
         /\ i = 0 /\ lastCommit = 0 /\ buf = <<>> /\ delivered = <<>> /\ validEnd = 0 /\ done = FALSE
         /\ snaps = <<>>
GStep == /\ Step
         /\ snaps' = IF i' # i THEN Append(snaps, [ve |-> validEnd', nd |-> Len(delivered')]) ELSE snaps
Build == /\ InitRecs < MaxRecs /\ Len(recs) < MaxRecs
         /\ \/ ~done /\ i = Len(recs)
            \/ done /\ i < Len(recs) /\ Len(recs) - i <= TailLen
         /\ \E r \in RecSet : recs' = Append(recs, r)
         /\ UNCHANGED <<i, lastCommit, buf, delivered, validEnd, done, snaps>>
GNext == GStep \/ Build
GenSpec == GInit /\ [][GNext]_gvars
Complete == done /\ (InitRecs = MaxRecs \/ i = Len(recs) \/ Len(recs) - i = TailLen + 1 \/ Len(recs) = MaxRecs)
Emit == Complete => PrintT(<<"CASE", ToJson([recs |-> recs, consumed |-> i, delivered |-> delivered,
                                              validEnd |-> validEnd, snaps |-> snaps])>>)
=============================================================================
