SPECIFICATION GenSpec
CONSTANTS
  NKeys = 2
  NVers = 2
  MaxEntries = 4
  MaxTables = 2
  OpLen = 3
  Dirs = {FALSE, TRUE}
  Shaped = FALSE
  Incremental = FALSE
INVARIANTS LevelOK PosOK Emit
