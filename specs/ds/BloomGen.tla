------------------------------ MODULE BloomGen ------------------------------
(***************************************************************************)
(* Generator for C19 at the real word size (B = 65536, MinBits = 64): for  *)
(* boundary classes of 32-bit hashes (as halves <<hi, lo>>), key multisets *)
(* of 0..MaxN of them plus long pseudo-random hash lists, and boundary     *)
(* bits-per-key settings (k = 1 and k = 30 clamps, the 64-bit minimum,     *)
(* negative input), the specification predicts the whole filter: its       *)
(* length, k, the exact set of 1 bits, and the answer of MayContain for    *)
(* member and non-member probe hashes.                                     *)
(***************************************************************************)
EXTENDS Bloom, Json, TLC
CONSTANTS MaxN, BPKs, LongNs

HashClasses == << <<0, 0>>, <<0, 1>>, <<0, 32768>>, <<0, 65535>>, <<1, 0>>, <<2, 0>>, <<32768, 0>>,
                  <<43690, 21845>>, <<48287, 7476>>, <<65535, 65534>>, <<65535, 65535>> >>
NC == Len(HashClasses)
\* a deterministic spread of hashes for long lists (any function would do: the prediction is exact)
GenHash(i) == <<(i * 40503 + 12345) % B, (i * 30011 + 7) % B>>
Probe == << <<0, 2>>, <<1, 1>>, <<12345, 54321>>, <<65535, 0>>, <<32767, 65535>> >>

VARIABLES ix, bpk, long     \* ix: indices into HashClasses (non-decreasing: one state per multiset); long: length of a generated list or 0
Hs == IF long > 0 THEN [i \in 1..long |-> GenHash(i)] ELSE [i \in 1..Len(ix) |-> HashClasses[ix[i]]]
Case == LET hs == Hs f == Build(hs, bpk) IN
    [hs |-> hs, bpk |-> bpk, k |-> f.k, nbytes |-> f.nbytes, bits |-> f.bits,
     member |-> [i \in 1..Len(hs) |-> MayContain(f, hs[i])],
     probes |-> [i \in 1..Len(Probe) |-> [h |-> Probe[i], may |-> MayContain(f, Probe[i])]]]
Init == /\ bpk \in BPKs \cup {-1}      \* -1: appendFilter treats negative bitsPerKey as 0
        /\ ix = <<>>
        /\ long \in {0} \cup {n \in LongNs : n * bpk < 46000}
\* the multiset grows one hash class per step; every state is a case, so TLC's workers share them
Grow == /\ long = 0 /\ Len(ix) < MaxN
        /\ \E j \in 1..NC : (ix # <<>> => ix[Len(ix)] <= j) /\ ix' = Append(ix, j)
        /\ UNCHANGED <<bpk, long>>
Next == Grow
Spec == Init /\ [][Next]_<<ix, bpk, long>>
AllMembers == NoFalseNegative(Hs, bpk)
Emit == PrintT(<<"CASE", ToJson(Case)>>)
=============================================================================
