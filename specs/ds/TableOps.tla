------------------------------ MODULE TableOps ------------------------------
(***************************************************************************)
(* What an SSTable and a level of SSTables promise (C18).                  *)
(*                                                                         *)
(* A table is a non-empty sorted sequence of entries (SortedSeq).  It was  *)
(* built by table.Builder.Add from exactly that sequence; whatever block   *)
(* size, compression, encryption, bloom or checksum options were used, it  *)
(* must answer as the sequence does:                                       *)
(*   table.Iterator (opt 0 / REVERSED) = the SortedSeq cursor over it,     *)
(*   Smallest / Biggest / MaxVersion / KeyCount = the functions below,     *)
(*   DoesNotHave(hash of k) = FALSE for every user key k in it (C19),      *)
(*   VerifyChecksum succeeds.                                              *)
(* A level is a sequence of tables with increasing, non-overlapping key    *)
(* ranges; table.ConcatIterator over it = the SortedSeq cursor over the    *)
(* concatenation.                                                          *)
(* Code anchors: table/builder.go (Add, finishBlock, Done), table/table.go *)
(* (OpenTable, initBiggestAndSmallest, block, VerifyChecksum, DoesNotHave),*)
(* table/iterator.go (Iterator, ConcatIterator).                           *)
(***************************************************************************)
EXTENDS SortedSeq

Smallest(t)   == t[1].ik
Biggest(t)    == t[Len(t)].ik
MaxVersion(t) == SMax({t[i].ik[2] : i \in 1..Len(t)})
KeyCount(t)   == Len(t)
UserKeys(t)   == {t[i].ik[1] : i \in 1..Len(t)}
TableMeta(t)  == [sk |-> Smallest(t)[1], sv |-> Smallest(t)[2], bk |-> Biggest(t)[1], bv |-> Biggest(t)[2],
                  maxv |-> MaxVersion(t), count |-> KeyCount(t)]

ValidLevel(ts) == /\ \A j \in 1..Len(ts) : ts[j] # <<>> /\ IsSorted(ts[j])
                  /\ \A j \in 1..(Len(ts) - 1) : IKLess(Biggest(ts[j]), Smallest(ts[j + 1]))
Level(ts) == Flatten(ts)

\* cut a sequence after the positions in cuts
RECURSIVE SplitAt(_, _, _)
SplitAt(s, cuts, from) ==
    IF from > Len(s) THEN <<>>
    ELSE LET later == {c \in cuts : c >= from}
             to == IF later = {} THEN Len(s) ELSE SMin(later)
         IN <<SubSeq(s, from, to)>> \o SplitAt(s, cuts, to + 1)

\* ---- lemmas behind ConcatIterator (checked in TableOps_MC) -----------------------
LevelSorted(ts) == ValidLevel(ts) => IsSorted(Level(ts))
Offset(ts, j) == Len(Flatten(SubSeq(ts, 1, j - 1)))
\* ConcatIterator.Seek: forward picks the first table whose Biggest >= t and seeks inside it;
\* reverse picks the last table whose Smallest <= t.  This lands where the cursor over the
\* concatenation lands.
ConcatSeekLemma(ts, t) ==
    LET fw == {j \in 1..Len(ts) : IKLeq(t, Biggest(ts[j]))}
        rv == {j \in 1..Len(ts) : IKLeq(Smallest(ts[j]), t)}
    IN /\ IF fw = {} THEN SeekGE(Level(ts), t) = Len(Level(ts)) + 1
          ELSE LET j == SMin(fw) IN SeekGE(Level(ts), t) = Offset(ts, j) + SeekGE(ts[j], t)
       /\ IF rv = {} THEN SeekLE(Level(ts), t) = 0
          ELSE LET j == SMax(rv) IN SeekLE(Level(ts), t) = Offset(ts, j) + SeekLE(ts[j], t)
=============================================================================
