----------------------------- MODULE TableOpsGen -----------------------------
(***************************************************************************)
(* Generator / model for C18: every level of up to MaxTables tables with   *)
(* up to MaxEntries entries over NKeys x NVers internal keys, every cursor *)
(* operation sequence of length OpLen (Rewind, Seek to any internal key of *)
(* the domain - present or absent -, Next while valid), forward and        *)
(* reverse.  A case carries the tables, their metadata, the operations and *)
(* the observation (valid, key, version, value token) the specification    *)
(* predicts after each operation.  The same cases drive table.Iterator     *)
(* (single table) and table.ConcatIterator.                                *)
(***************************************************************************)
EXTENDS TableOps, Json, TLC
CONSTANTS NKeys, NVers, MaxEntries, MaxTables, OpLen, Dirs,
          Shaped,        \* TRUE: sequences are Seek/Rewind followed by runs of Next (for -simulate)
          Incremental    \* TRUE: the level is built by include/cut steps (for -simulate); FALSE: enumerated in Init

IKeys == (1..NKeys) \X (1..NVers)
VARIABLES tabs, rev, pos, hist, bidx
vars == <<tabs, rev, pos, hist, bidx>>

EntryOf(x) == [ik |-> x, val |-> x[1] * 10 + x[2]]
IKSeq == SortSet({EntryOf(x) : x \in IKeys})       \* the domain in key order
Init == /\ IF Incremental THEN tabs = <<>> /\ bidx = 0
           ELSE /\ \E S \in SUBSET IKeys :
                     /\ Cardinality(S) \in 1..MaxEntries
                     /\ \E cuts \in SUBSET (1..(Cardinality(S) - 1)) :
                           /\ Cardinality(cuts) < MaxTables
                           /\ tabs = SplitAt(SortSet({EntryOf(x) : x \in S}), cuts, 1)
                /\ bidx = Len(IKSeq)
        /\ rev \in Dirs
        /\ pos = -1            \* not positioned yet: the first operation is Rewind or Seek
        /\ hist = <<>>

\* build step for the bidx+1-th key of the domain: leave it out, append it to the last table, or start a new table
Build == /\ bidx < Len(IKSeq)
         /\ LET e == IKSeq[bidx + 1]
                n == Len(Flatten(tabs))
            IN \/ /\ (bidx + 1 < Len(IKSeq) \/ n > 0) /\ tabs' = tabs               \* never end with an empty level
               \/ /\ n < MaxEntries /\ tabs # <<>> /\ tabs' = [tabs EXCEPT ![Len(tabs)] = Append(@, e)]
               \/ /\ n < MaxEntries /\ Len(tabs) < MaxTables /\ tabs' = Append(tabs, <<e>>)
         /\ bidx' = bidx + 1
         /\ UNCHANGED <<rev, pos, hist>>
L == Level(tabs)
Room == Len(hist) < OpLen /\ bidx = Len(IKSeq)
MayReposition == ~Shaped \/ Len(hist) % 3 = 0 \/ ~CValid(L, pos)
Rec(op, t, p) == [op |-> op, tk |-> t[1], tv |-> t[2], obs |-> CObs(L, p)]
Rewind == /\ Room /\ MayReposition /\ pos' = CRewind(L, rev) /\ hist' = Append(hist, Rec("rewind", <<0, 0>>, pos'))
          /\ UNCHANGED <<tabs, rev, bidx>>
Seek(t) == /\ Room /\ MayReposition /\ pos' = CSeek(L, t, rev) /\ hist' = Append(hist, Rec("seek", t, pos'))
           /\ UNCHANGED <<tabs, rev, bidx>>
Next == /\ Room /\ CValid(L, pos) /\ pos' = CNext(L, pos, rev) /\ hist' = Append(hist, Rec("next", <<0, 0>>, pos'))
        /\ UNCHANGED <<tabs, rev, bidx>>
GenNext == Build \/ Rewind \/ Next \/ \E t \in IKeys : Seek(t)
GenSpec == Init /\ [][GenNext]_vars

\* design-level invariants of the model itself
\* (the level does not change after it is built: evaluated once per level, before the first operation)
LevelOK == (bidx = Len(IKSeq) /\ hist = <<>>) => ValidLevel(tabs) /\ IsSorted(L) /\ \A t \in IKeys : ConcatSeekLemma(tabs, t)
PosOK == pos = -1 \/ pos \in 0..(Len(L) + 1)

Emit == Len(hist) = OpLen =>
          PrintT(<<"CASE", ToJson([tabs |-> tabs, rev |-> rev, ops |-> hist,
                                   meta |-> [j \in 1..Len(tabs) |-> TableMeta(tabs[j])]])>>)
=============================================================================
