SPECIFICATION GenSpec
CONSTANTS
  Syms = {0, 1, 127, 128, 255}
  MaxLen = 2
  LongLen = 1
  ModelRun = 4
INVARIANTS Emit
