------------------------------ MODULE BlockKeys ------------------------------
(***************************************************************************)
(* Key prefix compression inside an SSTable block (C18): the Builder       *)
(* stores every key of a block as (overlap with the block's base key,      *)
(* remaining suffix) - table/builder.go addHelper / keyDiff - and the      *)
(* block iterator rebuilds the key in a buffer it reuses between entries,  *)
(* copying from the base key only the part the previous entry did not      *)
(* already share - table/iterator.go blockIterator.setIdx with prevOverlap.*)
(* Binary search jumps between entries in any order, so the buffer logic   *)
(* must be right for every sequence of setIdx calls.                       *)
(*                                                                         *)
(* Keys are byte sequences over Syms; a block is a strictly increasing     *)
(* (bytes.Compare) sequence of 1..MaxKeys keys.  Invariant Rebuilt: after  *)
(* every setIdx the buffer holds exactly the key that was added.           *)
(***************************************************************************)
EXTENDS Integers, Sequences, FiniteSets

CONSTANTS Syms, MaxLen, MaxKeys

RECURSIVE SeqsOf(_)
SeqsOf(n) == IF n = 0 THEN {<<>>} ELSE {<<c>> \o s : c \in Syms, s \in SeqsOf(n - 1)}
AllKeys == UNION {SeqsOf(n) : n \in 1..MaxLen}

RECURSIVE LexLess(_, _)
LexLess(a, b) == IF b = <<>> THEN FALSE ELSE IF a = <<>> THEN TRUE
                 ELSE IF Head(a) # Head(b) THEN Head(a) < Head(b) ELSE LexLess(Tail(a), Tail(b))

\* Builder.keyDiff: length of the common prefix with the base key
RECURSIVE Common(_, _)
Common(a, b) == IF a = <<>> \/ b = <<>> \/ Head(a) # Head(b) THEN 0 ELSE 1 + Common(Tail(a), Tail(b))
\* the stored form of the i-th key of a block: the first key is stored whole with overlap 0 (the base key is still empty when
\* it is added), later keys as (overlap, diff)
Stored(blk, i) == IF i = 1 THEN [overlap |-> 0, diff |-> blk[1]]
                  ELSE LET o == Common(blk[i], blk[1]) IN [overlap |-> o, diff |-> SubSeq(blk[i], o + 1, Len(blk[i]))]

VARIABLES blk,          \* the keys added to the block, in order
          key, prevOverlap, cur      \* blockIterator.key, .prevOverlap, index of the last setIdx (0 = none yet)
vars == <<blk, key, prevOverlap, cur>>

Blocks == UNION {{b \in [1..n -> AllKeys] : \A i \in 1..(n - 1) : LexLess(b[i], b[i + 1])} : n \in 1..MaxKeys}
Init == blk \in Blocks /\ key = <<>> /\ prevOverlap = 0 /\ cur = 0       \* setBlock: key[:0], prevOverlap = 0

\* blockIterator.setIdx(i) for an index inside the block; the base key is the diff of entry 0
SetIdx(i) ==
    LET h == Stored(blk, i)
        base == Stored(blk, 1).diff
        k1 == IF h.overlap > prevOverlap
              THEN SubSeq(key, 1, prevOverlap) \o SubSeq(base, prevOverlap + 1, h.overlap)
              ELSE key
    IN /\ key' = SubSeq(k1, 1, h.overlap) \o h.diff
       /\ prevOverlap' = h.overlap
       /\ cur' = i
       /\ UNCHANGED blk
Next == \E i \in 1..Len(blk) : SetIdx(i)
Spec == Init /\ [][Next]_vars

Rebuilt == cur # 0 => key = blk[cur]
\* what makes the shortcut sound: the buffer always starts with the base key's first prevOverlap bytes
PrefixInv == cur # 0 => /\ Len(key) >= prevOverlap
                        /\ SubSeq(key, 1, prevOverlap) = SubSeq(blk[1], 1, prevOverlap)
=============================================================================
