---- MODULE Oracle_MC ----
EXTENDS Oracle
\* two read-write transactions in write-skew position and one reader
ProgA == (1 :> [upd |-> TRUE, reads |-> {1}, writes |-> {2}]) @@
         (2 :> [upd |-> TRUE, reads |-> {2}, writes |-> {1, 2}]) @@
         (3 :> [upd |-> FALSE, reads |-> {1, 2}, writes |-> {}])
\* three read-write transactions, one of them long-running across two cleanups
ProgB == (1 :> [upd |-> TRUE, reads |-> {1}, writes |-> {1}]) @@
         (2 :> [upd |-> TRUE, reads |-> {2}, writes |-> {1}]) @@
         (3 :> [upd |-> TRUE, reads |-> {1}, writes |-> {2}]) @@
         (4 :> [upd |-> FALSE, reads |-> {1}, writes |-> {}])
\* four read-write transactions: t3 is long-running and reads what t2 overwrites while t4's
\* commit runs a cleanup with a lagging readMark
ProgC == (1 :> [upd |-> TRUE, reads |-> {}, writes |-> {1}]) @@
         (2 :> [upd |-> TRUE, reads |-> {}, writes |-> {1}]) @@
         (3 :> [upd |-> TRUE, reads |-> {1}, writes |-> {2}]) @@
         (4 :> [upd |-> TRUE, reads |-> {2}, writes |-> {2}])
====
