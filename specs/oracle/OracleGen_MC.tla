---- MODULE OracleGen_MC ----
EXTENDS OracleGen
ProgA == (1 :> [upd |-> TRUE, reads |-> {1}, writes |-> {2}]) @@
         (2 :> [upd |-> TRUE, reads |-> {2}, writes |-> {1, 2}]) @@
         (3 :> [upd |-> FALSE, reads |-> {1, 2}, writes |-> {}])
ProgB == (1 :> [upd |-> TRUE, reads |-> {1}, writes |-> {1}]) @@
         (2 :> [upd |-> TRUE, reads |-> {2}, writes |-> {1}]) @@
         (3 :> [upd |-> TRUE, reads |-> {1}, writes |-> {2}]) @@
         (4 :> [upd |-> FALSE, reads |-> {1}, writes |-> {}])
ProgC == (1 :> [upd |-> TRUE, reads |-> {}, writes |-> {1}]) @@
         (2 :> [upd |-> TRUE, reads |-> {}, writes |-> {1}]) @@
         (3 :> [upd |-> TRUE, reads |-> {1}, writes |-> {2}]) @@
         (4 :> [upd |-> TRUE, reads |-> {2}, writes |-> {2}])
====
