SPECIFICATION FairSpec
CONSTANTS
  MaxIdx = 3
  Waiters = {1, 2}
  MaxMarks = 7
  Unique = TRUE
INVARIANTS DoneUntilSound AssertNeverFires ReleasedSound NoStaleWaiter
PROPERTIES DoneUntilMonotone NoLostWakeup
