SPECIFICATION Spec
INVARIANTS Conforms
CONSTRAINT HighWater
POSTCONDITION Accepted
CHECK_DEADLOCK FALSE
