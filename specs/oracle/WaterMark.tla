------------------------------ MODULE WaterMark ------------------------------
(***************************************************************************)
(* Transcription of y/watermark.go.  Callers enqueue marks on a FIFO       *)
(* channel (Begin, Done, WaitForMark); one goroutine (process) dequeues    *)
(* them, maintains pending counts, a min-heap of indices, doneUntil and    *)
(* the registered waiters.                                                 *)
(*                                                                         *)
(* Usage assumptions (what oracle guarantees, txn.go): Begin indices are   *)
(* enqueued in non-decreasing order (they are issued under oracle.Lock);   *)
(* Done(i) is called only after Begin(i) and at most as often.  With       *)
(* Unique = TRUE every index is begun at most once (txnMark); with         *)
(* Unique = FALSE an index may be begun repeatedly (readMark).             *)
(***************************************************************************)
EXTENDS Integers, Sequences, FiniteSets, TLC

CONSTANTS MaxIdx,     \* indices are 1..MaxIdx
          Waiters,    \* set of waiter ids
          MaxMarks,   \* bound on marks ever enqueued (model constraint)
          Unique      \* BOOLEAN, see above

VARIABLES ch,         \* the channel: sequence of marks
          pending,    \* [0..MaxIdx -> Int]   pending[i] = begins - dones processed (map in the code)
          heap,       \* set of indices currently in the heap
          doneUntil, lastIndex,
          waiting,    \* [idx -> set of waiters registered by process]
          wstate,     \* [Waiters -> "idle" | "enq" | "released"], plus the index waited for
          widx,
          begun, doneCalled,   \* ghosts: number of Begin(i) / Done(i) calls made (enqueued)
          doneProc,            \* ghost: number of Done(i) marks processed
          nmarks,
          assertFailed         \* the AssertTruef in processOne fired

vars == <<ch, pending, heap, doneUntil, lastIndex, waiting, wstate, widx, begun, doneCalled,
          doneProc, nmarks, assertFailed>>

Idx == 1..MaxIdx
Min(S) == CHOOSE x \in S : \A y \in S : x <= y

Init ==
    /\ ch = <<>>
    /\ pending = [i \in Idx |-> 0]
    /\ heap = {}
    /\ doneUntil = 0 /\ lastIndex = 0
    /\ waiting = [i \in Idx |-> {}]
    /\ wstate = [w \in Waiters |-> "idle"] /\ widx = [w \in Waiters |-> 0]
    /\ begun = [i \in Idx |-> 0] /\ doneCalled = [i \in Idx |-> 0] /\ doneProc = [i \in Idx |-> 0]
    /\ nmarks = 0
    /\ assertFailed = FALSE

\* ---- callers
Begin(i) ==
    /\ nmarks < MaxMarks
    /\ i >= lastIndex                                  \* non-decreasing (oracle.Lock)
    /\ (Unique => begun[i] = 0)
    /\ lastIndex' = i
    /\ ch' = Append(ch, [kind |-> "begin", idx |-> i, w |-> 0])
    /\ begun' = [begun EXCEPT ![i] = @ + 1]
    /\ nmarks' = nmarks + 1
    /\ UNCHANGED <<pending, heap, doneUntil, waiting, wstate, widx, doneCalled, doneProc, assertFailed>>

Done(i) ==
    /\ nmarks < MaxMarks
    /\ doneCalled[i] < begun[i]
    /\ ch' = Append(ch, [kind |-> "done", idx |-> i, w |-> 0])
    /\ doneCalled' = [doneCalled EXCEPT ![i] = @ + 1]
    /\ nmarks' = nmarks + 1
    /\ UNCHANGED <<pending, heap, doneUntil, lastIndex, waiting, wstate, widx, begun, doneProc, assertFailed>>

\* WaitForMark: fast path when doneUntil (an atomic) already covers the index
WaitFast(w, i) ==
    /\ wstate[w] = "idle" /\ doneUntil >= i
    /\ wstate' = [wstate EXCEPT ![w] = "released"] /\ widx' = [widx EXCEPT ![w] = i]
    /\ UNCHANGED <<ch, pending, heap, doneUntil, lastIndex, waiting, begun, doneCalled, doneProc, nmarks, assertFailed>>

WaitEnq(w, i) ==
    /\ nmarks < MaxMarks
    /\ wstate[w] = "idle" /\ doneUntil < i
    /\ ch' = Append(ch, [kind |-> "wait", idx |-> i, w |-> w])
    /\ wstate' = [wstate EXCEPT ![w] = "enq"] /\ widx' = [widx EXCEPT ![w] = i]
    /\ nmarks' = nmarks + 1
    /\ UNCHANGED <<pending, heap, doneUntil, lastIndex, waiting, begun, doneCalled, doneProc, assertFailed>>

\* ---- the process goroutine: processOne(index, done) as a pure function of the state
RECURSIVE PopWhileDone(_, _, _)
\* returns <<heap', until>> after popping every minimum whose pending count is <= 0
PopWhileDone(h, p, until) ==
    IF h = {} THEN <<h, until>>
    ELSE LET m == Min(h) IN
         IF p[m] > 0 THEN <<h, until>> ELSE PopWhileDone(h \ {m}, p, m)

NumWaiterKeys(wt) == Cardinality({i \in Idx : wt[i] # {}})

ProcessOne(i, isDone) ==
    LET p1 == [pending EXCEPT ![i] = @ + (IF isDone THEN -1 ELSE 1)]
        h1 == heap \cup {i}     \* pushed if not present; popped entries are deleted from the map,
                                \* so a re-processed index is pushed again
        r  == PopWhileDone(h1, p1, doneUntil)
        h2 == r[1]
        until == r[2]
        \* entries popped are deleted from the pending map (count forgotten)
        p2 == [j \in Idx |-> IF j \in h1 /\ j \notin h2 THEN 0 ELSE p1[j]]
        \* both notification branches of the code
        toRelease == IF until - doneUntil <= NumWaiterKeys(waiting)
                     THEN UNION {waiting[j] : j \in {k \in Idx : doneUntil + 1 <= k /\ k <= until}}
                     ELSE UNION {waiting[j] : j \in {k \in Idx : k <= until}}
        cleared == IF until - doneUntil <= NumWaiterKeys(waiting)
                   THEN {k \in Idx : doneUntil + 1 <= k /\ k <= until}
                   ELSE {k \in Idx : k <= until}
    IN /\ assertFailed' = (assertFailed \/ doneUntil > i)
       /\ pending' = p2
       /\ heap' = h2
       /\ doneUntil' = until
       /\ waiting' = [j \in Idx |-> IF j \in cleared THEN {} ELSE waiting[j]]
       /\ wstate' = [w \in Waiters |-> IF w \in toRelease THEN "released" ELSE wstate[w]]
       /\ doneProc' = IF isDone THEN [doneProc EXCEPT ![i] = @ + 1] ELSE doneProc

Process ==
    /\ ch # <<>>
    /\ LET m == Head(ch) IN
       /\ ch' = Tail(ch)
       /\ IF m.kind = "wait"
          THEN /\ IF doneUntil >= m.idx
                  THEN /\ wstate' = [wstate EXCEPT ![m.w] = "released"]
                       /\ UNCHANGED waiting
                  ELSE /\ waiting' = [waiting EXCEPT ![m.idx] = @ \cup {m.w}]
                       /\ UNCHANGED wstate
               /\ UNCHANGED <<pending, heap, doneUntil, doneProc, assertFailed>>
          ELSE ProcessOne(m.idx, m.kind = "done")
    /\ UNCHANGED <<lastIndex, widx, begun, doneCalled, nmarks>>

Next ==
    \/ \E i \in Idx : Begin(i) \/ Done(i)
    \/ \E w \in Waiters, i \in Idx : WaitFast(w, i) \/ WaitEnq(w, i)
    \/ Process

Spec == Init /\ [][Next]_vars
FairSpec == Spec /\ WF_vars(Process)

-----------------------------------------------------------------------------
\* indices with a Begin call whose matching Done has not been processed yet
Open(i) == begun[i] > doneProc[i]

\* C34: the watermark never reports an index as done while a begun index at or below it
\* is pending.  For repeated begins of the same index (readMark usage) an index that already
\* was done can be begun again; doneUntil then equals that index (never exceeds it).
DoneUntilSound ==
    \A i \in Idx : Open(i) => IF Unique THEN doneUntil < i ELSE doneUntil <= i

DoneUntilMonotone == [][doneUntil' >= doneUntil]_vars
AssertNeverFires == ~assertFailed
\* a waiter is released only when the watermark has reached its index
ReleasedSound == \A w \in Waiters : wstate[w] = "released" => doneUntil >= widx[w]
\* no registered waiter is stranded below the watermark (both notification branches agree)
NoStaleWaiter == \A i \in Idx : waiting[i] # {} => doneUntil < i

\* liveness (under WF(Process)): a waiter whose index is covered is eventually released
AllDoneUpTo(i) == \A j \in Idx : j <= i => (begun[j] > 0 /\ doneCalled[j] = begun[j])
NoLostWakeup ==
    \A w \in Waiters : (wstate[w] = "enq" /\ AllDoneUpTo(widx[w])) ~> (wstate[w] = "released")
=============================================================================
