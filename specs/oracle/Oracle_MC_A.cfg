SPECIFICATION FairSpec
CONSTANTS
  Txns = {1, 2, 3}
  Keys = {1, 2}
  MaxTs = 3
  Prog <- ProgA
INVARIANTS NoReaderBeforeApply CommitOrderEqualsChannelOrder ConflictLogSufficient DecisionEqualsContract UniqueTs MarkSound
PROPERTIES Progress
