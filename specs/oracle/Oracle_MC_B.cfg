SPECIFICATION Spec
CONSTANTS
  Txns = {1, 2, 3, 4}
  Keys = {1, 2}
  MaxTs = 4
  Prog <- ProgB
INVARIANTS NoReaderBeforeApply CommitOrderEqualsChannelOrder ConflictLogSufficient DecisionEqualsContract UniqueTs MarkSound
