------------------------------ MODULE OracleGen ------------------------------
(***************************************************************************)
(* Schedule generator for Oracle.tla.  The harness (harness/cmd/orcreplay) *)
(* forces each step on the real DB with the verif gates:                   *)
(*   alloc(t)     NewTransaction started; parked at gate orc.readTs.wait   *)
(*   enter(t)     gate released: the reader is inside txnMark.WaitForMark  *)
(*   stamp(t)     Commit started and gate commit.start released: the       *)
(*                transaction takes writeChLock and runs newCommitTs; it   *)
(*                parks at commit.beforeEnqueue holding the lock           *)
(*   trystamp(t)  the same while another transaction holds writeChLock:    *)
(*                it must NOT obtain a timestamp; it gets one in the same  *)
(*                step in which the holder enqueues ("enqueue+stamp")      *)
(*   enqueue(t)   gate commit.beforeEnqueue released: sendToWriteCh        *)
(*   vlog         writer released from gate writer.batch (vlog.write done, *)
(*                parked before the first memtable put)                    *)
(*   put          one memtable put released (gate mem.beforePut)           *)
(*   done(t)      gate commit.beforeDone released: doneCommit, Commit      *)
(*                returns                                                   *)
(*   discard(t)   Txn.Discard                                               *)
(* The watermark goroutines run freely in the real DB, so the generator    *)
(* uses the eager instance of Oracle's watermark abstraction (doneUntil =  *)
(* its bound after every step); Oracle.tla itself is checked with lagging  *)
(* watermarks.  After every step the record carries which readers must be  *)
(* ready and which must still be blocked, and what each ready reader sees. *)
(***************************************************************************)
EXTENDS Oracle, Json

CONSTANT HistLen
VARIABLES hist, entered, toPut, stampBlocked
gvars == <<vars, hist, entered, toPut, stampBlocked>>

Room == Len(hist) < HistLen
RECURSIVE SeqOf(_)
SeqOf(S) == IF S = {} THEN <<>> ELSE LET x == CHOOSE y \in S : TRUE IN <<x>> \o SeqOf(S \ {x})

\* memtable puts of a batch: every request writes its entries plus one end-of-transaction marker
RECURSIVE SumPuts(_)
SumPuts(q) == IF q = <<>> THEN 0 ELSE Cardinality(Prog[Head(q)].writes) + 1 + SumPuts(Tail(q))

\* eager watermarks
Eager == /\ txnDoneUntil' = TxnBound'
         /\ rdDoneUntil' = RdBound'
OtherUnch == UNCHANGED <<pc, readTs, cts, nextTs, committedTxns, lastCleanup, txnBegun, txnDone,
                         rdBegun, rdDone, lockHolder, writeCh, batch, mem, allCommits, rejected, result>>

\* what a transaction reading at ts sees for key k: the newest stamped commit at or below ts
Sees(ts, k) == LET cs == {c \in allCommits' : c.ts <= ts /\ k \in c.keys /\ c.ts \notin rejected'} IN
               IF cs = {} THEN 0 ELSE (CHOOSE c \in cs : \A d \in cs : d.ts <= c.ts).ts
ReadyNow(t) == pc'[t] \in {"waiting"} /\ t \in entered' /\ txnDoneUntil' >= readTs'[t]
Obs == [ready |-> SeqOf({t \in Txns : t \in entered' /\ pc'[t] = "waiting" /\ txnDoneUntil' >= readTs'[t]}),
        blocked |-> SeqOf({t \in Txns : t \in entered' /\ pc'[t] = "waiting" /\ txnDoneUntil' < readTs'[t]}),
        sees |-> [t \in Txns |-> [k \in Keys |-> Sees(readTs'[t], k)]],
        readTs |-> readTs', cts |-> cts', result |-> result', nextTs |-> nextTs']
H(act, t) == hist' = Append(hist, [act |-> act, t |-> t, obs |-> Obs])

\* Oracle's actions with the watermark variables left to Eager
Core(A) == A

GAlloc(t) ==
    /\ pc[t] = "idle"
    /\ readTs' = [readTs EXCEPT ![t] = nextTs - 1]
    /\ rdBegun' = [rdBegun EXCEPT ![nextTs - 1] = @ + 1]
    /\ pc' = [pc EXCEPT ![t] = "waiting"]
    /\ UNCHANGED <<cts, nextTs, committedTxns, lastCleanup, txnBegun, txnDone, rdDone, lockHolder, writeCh, batch, mem, allCommits, rejected, result>>
    /\ UNCHANGED <<entered, toPut, stampBlocked>> /\ Eager /\ H("alloc", t)

GEnter(t) ==
    /\ pc[t] = "waiting" /\ t \notin entered
    /\ entered' = entered \cup {t}
    /\ OtherUnch /\ UNCHANGED <<readTs, cts>> /\ UNCHANGED <<toPut, stampBlocked>> /\ Eager /\ H("enter", t)

\* the harness observes readiness itself; "ready" moves the model on
GReady(t) ==
    /\ pc[t] = "waiting" /\ t \in entered /\ txnDoneUntil >= readTs[t]
    /\ pc' = [pc EXCEPT ![t] = "active"]
    /\ UNCHANGED <<readTs, cts, nextTs, committedTxns, lastCleanup, txnBegun, txnDone, rdBegun, rdDone, lockHolder,
                   writeCh, batch, mem, allCommits, rejected, result, entered, toPut, stampBlocked>>
    /\ Eager /\ H("ready", t)

GDiscard(t) ==
    /\ pc[t] = "active" /\ (~Prog[t].upd \/ Prog[t].writes = {})
    /\ rdDone' = [rdDone EXCEPT ![readTs[t]] = @ + 1]
    /\ pc' = [pc EXCEPT ![t] = "finished"]
    /\ UNCHANGED <<readTs, cts, nextTs, committedTxns, lastCleanup, txnBegun, txnDone, rdBegun, lockHolder, writeCh,
                   batch, mem, allCommits, rejected, result, entered, toPut, stampBlocked>>
    /\ Eager /\ H("discard", t)

\* StartCommit + NewCommitTs in one step (there is no schedule point between Lock and newCommitTs)
StampBody(t) ==
    /\ IF HasConflict(t)
       THEN /\ result' = [result EXCEPT ![t] = "conflict"]
            /\ pc' = [pc EXCEPT ![t] = "finished"]
            /\ rdDone' = [rdDone EXCEPT ![readTs[t]] = @ + 1]        \* deferred Discard
            /\ UNCHANGED <<cts, nextTs, committedTxns, lastCleanup, txnBegun, allCommits, lockHolder>>
       ELSE /\ nextTs <= MaxTs
            /\ rdDone' = [rdDone EXCEPT ![readTs[t]] = @ + 1]
            /\ LET maxRead == rdDoneUntil
                   kept == IF maxRead = lastCleanup THEN committedTxns ELSE {c \in committedTxns : c.ts > maxRead}
               IN /\ lastCleanup' = maxRead
                  /\ committedTxns' = kept \cup {[ts |-> nextTs, keys |-> Prog[t].writes]}
            /\ cts' = [cts EXCEPT ![t] = nextTs]
            /\ nextTs' = nextTs + 1
            /\ txnBegun' = txnBegun \cup {nextTs}
            /\ allCommits' = allCommits \cup {[ts |-> nextTs, keys |-> Prog[t].writes, t |-> t]}
            /\ pc' = [pc EXCEPT ![t] = "stamped"]
            /\ lockHolder' = t
            /\ UNCHANGED result
    /\ UNCHANGED <<readTs, txnDone, rdBegun, writeCh, batch, mem, entered, toPut, rejected>>

GStamp(t) ==
    /\ pc[t] = "active" /\ Prog[t].upd /\ Prog[t].writes # {} /\ lockHolder = 0 /\ stampBlocked = {}
    /\ StampBody(t) /\ UNCHANGED stampBlocked
    /\ Eager /\ H("stamp", t)

\* a second committer while the lock is held: it must block (no timestamp) until the holder enqueues
GTryStamp(t) ==
    /\ pc[t] = "active" /\ Prog[t].upd /\ Prog[t].writes # {} /\ lockHolder # 0 /\ stampBlocked = {}
    /\ stampBlocked' = stampBlocked \cup {t}
    /\ OtherUnch /\ UNCHANGED <<readTs, cts, entered, toPut>> /\ Eager /\ H("trystamp", t)

\* enqueue (writeChLock released).  A committer blocked on the lock acquires it at once and runs
\* its newCommitTs - there is no schedule point in between, so it is part of the same step.
EnqueueBody(t) ==
    /\ IF batch = <<>> /\ writeCh = <<>> THEN batch' = <<t>> /\ toPut' = Cardinality(Prog[t].writes) + 1 /\ UNCHANGED writeCh
       ELSE writeCh' = Append(writeCh, t) /\ UNCHANGED <<batch, toPut>>

GEnqueue(t) ==
    /\ pc[t] = "stamped" /\ stampBlocked = {}
    /\ EnqueueBody(t)
    /\ lockHolder' = 0
    /\ pc' = [pc EXCEPT ![t] = "queued"]
    /\ UNCHANGED <<readTs, cts, nextTs, committedTxns, lastCleanup, txnBegun, txnDone, rdBegun, rdDone, mem, allCommits, rejected, result,
                   entered, stampBlocked>>
    /\ Eager /\ H("enqueue", t)

GEnqueueHandover(t, u) ==
    /\ pc[t] = "stamped" /\ stampBlocked = {u}
    /\ EnqueueBody(t)
    /\ stampBlocked' = {}
    /\ IF HasConflict(u)
       THEN /\ result' = [result EXCEPT ![u] = "conflict"]
            /\ pc' = [pc EXCEPT ![t] = "queued", ![u] = "finished"]
            /\ rdDone' = [rdDone EXCEPT ![readTs[u]] = @ + 1]
            /\ lockHolder' = 0
            /\ UNCHANGED <<cts, nextTs, committedTxns, lastCleanup, txnBegun, allCommits>>
       ELSE /\ nextTs <= MaxTs
            /\ rdDone' = [rdDone EXCEPT ![readTs[u]] = @ + 1]
            /\ LET maxRead == rdDoneUntil
                   kept == IF maxRead = lastCleanup THEN committedTxns ELSE {c \in committedTxns : c.ts > maxRead}
               IN /\ lastCleanup' = maxRead
                  /\ committedTxns' = kept \cup {[ts |-> nextTs, keys |-> Prog[u].writes]}
            /\ cts' = [cts EXCEPT ![u] = nextTs]
            /\ nextTs' = nextTs + 1
            /\ txnBegun' = txnBegun \cup {nextTs}
            /\ allCommits' = allCommits \cup {[ts |-> nextTs, keys |-> Prog[u].writes, t |-> u]}
            /\ pc' = [pc EXCEPT ![t] = "queued", ![u] = "stamped"]
            /\ lockHolder' = u
            /\ UNCHANGED result
    /\ UNCHANGED <<readTs, txnDone, rdBegun, mem, entered, rejected>>
    /\ Eager /\ hist' = Append(hist, [act |-> "enqueue+stamp", t |-> t, u |-> u, obs |-> Obs])

\* the harness blocks writes (db.blockWrites) around this enqueue: sendToWriteCh returns
\* ErrBlockedWrites, commitAndSend calls doneCommit, Commit returns the error; no lock hand-over pending
GReject(t) ==
    /\ pc[t] = "stamped" /\ stampBlocked = {}
    /\ txnDone' = txnDone \cup {cts[t]}
    /\ rejected' = rejected \cup {cts[t]}
    /\ lockHolder' = 0
    /\ result' = [result EXCEPT ![t] = "rejected"]
    /\ pc' = [pc EXCEPT ![t] = "finished"]
    /\ committedTxns' = {c \in committedTxns : c.ts # cts[t]}
    /\ UNCHANGED <<readTs, cts, nextTs, lastCleanup, txnBegun, rdBegun, rdDone, writeCh, batch, mem,
                   allCommits, entered, toPut, stampBlocked>>
    /\ Eager /\ H("reject", t)

\* one memtable put of the current batch (entries + one end-of-transaction marker per request).
\* After the last put writeRequests finishes on its own (Wg.Done for every request) and doWrites
\* hands over whatever has queued up meanwhile - no schedule point, hence the same step.
GPut ==
    /\ batch # <<>> /\ toPut > 0
    /\ IF toPut > 1
       THEN /\ toPut' = toPut - 1
            /\ UNCHANGED <<pc, mem, batch, writeCh>>
       ELSE /\ mem' = mem \cup UNION {Entries(batch[i]) : i \in 1..Len(batch)}
            /\ pc' = [t \in Txns |-> IF \E i \in 1..Len(batch) : batch[i] = t THEN "applied" ELSE pc[t]]
            /\ batch' = writeCh /\ writeCh' = <<>>
            /\ toPut' = SumPuts(writeCh)
    /\ UNCHANGED <<readTs, cts, nextTs, committedTxns, lastCleanup, txnBegun, txnDone, rdBegun, rdDone, lockHolder,
                   allCommits, rejected, result, entered, stampBlocked>>
    /\ Eager /\ hist' = Append(hist, [act |-> IF toPut > 1 THEN "put" ELSE "lastput", t |-> 0, obs |-> Obs])

GDone(t) ==
    /\ pc[t] = "applied"
    /\ txnDone' = txnDone \cup {cts[t]}
    /\ result' = [result EXCEPT ![t] = "ok"]
    /\ pc' = [pc EXCEPT ![t] = "finished"]
    /\ UNCHANGED <<readTs, cts, nextTs, committedTxns, lastCleanup, txnBegun, rdBegun, rdDone, lockHolder, writeCh, batch, mem,
                   allCommits, rejected, entered, toPut, stampBlocked>>
    /\ Eager /\ H("done", t)

GNext ==
    /\ Room
    /\ \/ \E t \in Txns : GAlloc(t) \/ GEnter(t) \/ GReady(t) \/ GDiscard(t) \/ GStamp(t) \/ GTryStamp(t)
                          \/ GEnqueue(t) \/ GReject(t) \/ GDone(t)
       \/ \E t, u \in Txns : GEnqueueHandover(t, u)
       \/ GPut

GInit == Init /\ hist = <<>> /\ entered = {} /\ toPut = 0 /\ stampBlocked = {}
GenSpec == GInit /\ [][GNext]_gvars
AllFinished == \A t \in Txns : pc[t] = "finished"
Emit == (Len(hist) = HistLen \/ (AllFinished /\ Len(hist) > 0)) => PrintT(<<"CASE", ToJson(hist)>>)
\* the generator is a refinement-in-spirit of Oracle: its own states satisfy Oracle's invariants
GenSound == NoReaderBeforeApply /\ CommitOrderEqualsChannelOrder /\ UniqueTs
=============================================================================
