---------------------------- MODULE WaterMarkGen ----------------------------
(* Behaviour generator for WaterMark: every action appends a step with the        *)
(* post-state the specification predicts (doneUntil, lastIndex, released waiters). *)
EXTENDS WaterMark, Json
CONSTANT HistLen
VARIABLE hist
gvars == <<vars, hist>>
Room == Len(hist) < HistLen
Released(ws) == {w \in Waiters : ws[w] = "released"}
Post(act, i, w) == [act |-> act, idx |-> i, w |-> w, doneUntil |-> doneUntil', lastIndex |-> lastIndex',
                    released |-> Released(wstate')]
GNext ==
    /\ Room
    /\ \/ \E i \in Idx : Begin(i) /\ hist' = Append(hist, Post("begin", i, 0))
       \/ \E i \in Idx : Done(i) /\ hist' = Append(hist, Post("done", i, 0))
       \/ \E w \in Waiters, i \in Idx : WaitFast(w, i) /\ hist' = Append(hist, Post("waitfast", i, w))
       \/ \E w \in Waiters, i \in Idx : WaitEnq(w, i) /\ hist' = Append(hist, Post("waitenq", i, w))
       \/ Process /\ hist' = Append(hist, Post("process", Head(ch).idx, Head(ch).w))
GInit == Init /\ hist = <<>>
GenSpec == GInit /\ [][GNext]_gvars
\* a history is complete when it is full, or when nothing more can happen
Emit == (Len(hist) = HistLen) => PrintT(<<"CASE", ToJson(hist)>>)
=============================================================================
