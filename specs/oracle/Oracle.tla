------------------------------- MODULE Oracle -------------------------------
(***************************************************************************)
(* The commit pipeline of badger: timestamp oracle, the two watermarks,    *)
(* the write channel, the single writer goroutine and the memtable.        *)
(* One action per critical section of txn.go / db.go:                      *)
(*                                                                         *)
(*   ReadTsAlloc(t)   oracle.readTs: readTs = nextTxnTs-1; readMark.Begin  *)
(*                    (under oracle.Lock)                                  *)
(*   ReaderReady(t)   txnMark.WaitForMark(readTs) returns                  *)
(*   StartCommit(t)   Txn.commitAndSend: writeChLock.Lock()                *)
(*   NewCommitTs(t)   oracle.newCommitTs: hasConflict; doneRead; cleanup-  *)
(*                    CommittedTransactions; ts alloc; txnMark.Begin;      *)
(*                    append committedTxns   (under oracle.Lock)           *)
(*   Enqueue(t)       sendToWriteCh; writeChLock.Unlock()                  *)
(*   WriterTake       doWrites hands the queued requests to writeRequests  *)
(*   MemPut(t,k)      writeToLSM: one mt.Put                               *)
(*   BatchDone        writeRequests: done(nil) -> every req.Wg.Done()      *)
(*   DoneCommit(t)    orc.doneCommit -> txnMark.Done(ts); Commit returns   *)
(*   Discard(t)       orc.doneRead -> readMark.Done(readTs)                *)
(*   Advance(m)       the watermark goroutine catches up (any amount, at   *)
(*                    most the bound WaterMark.tla establishes)            *)
(*                                                                         *)
(* The watermarks are abstracted by what WaterMark.tla proves about them   *)
(* (DoneUntilSound, DoneUntilMonotone, NoLostWakeup): doneUntil lags       *)
(* arbitrarily behind the largest index below which every begun index had  *)
(* Done called.                                                            *)
(***************************************************************************)
EXTENDS Integers, Sequences, FiniteSets, TLC

CONSTANTS Txns,       \* transaction ids (each used once)
          Keys,
          MaxTs,
          Prog        \* [Txns -> [upd : BOOLEAN, reads : SUBSET Keys, writes : SUBSET Keys]]

VARIABLES pc,         \* per transaction program counter
          readTs, cts,
          nextTs,
          committedTxns,   \* set of [ts, keys]: oracle.committedTxns
          lastCleanup,
          txnBegun, txnDone, txnDoneUntil,     \* txnMark: sets of indices / value
          rdBegun, rdDone, rdDoneUntil,        \* readMark: bags as functions ts -> count / value
          lockHolder,      \* writeChLock: 0 or txn id
          writeCh,         \* sequence of txn ids (requests) in channel order
          batch,           \* sequence of txn ids the writer is applying
          mem,             \* memtable: set of [k, ts]
          allCommits,      \* ghost: every stamped commit [ts, keys, t] (never pruned)
          rejected,        \* ghost: timestamps whose request sendToWriteCh refused (ErrBlockedWrites, ErrTxnTooBig)
          result           \* per txn: "none" | "ok" | "conflict" | "rejected"

vars == <<pc, readTs, cts, nextTs, committedTxns, lastCleanup, txnBegun, txnDone, txnDoneUntil,
          rdBegun, rdDone, rdDoneUntil, lockHolder, writeCh, batch, mem, allCommits, rejected, result>>

TsRange == 0..(MaxTs + 1)

Init ==
    /\ pc = [t \in Txns |-> "idle"]
    /\ readTs = [t \in Txns |-> 0] /\ cts = [t \in Txns |-> 0]
    /\ nextTs = 1
    /\ committedTxns = {} /\ lastCleanup = 0
    /\ txnBegun = {} /\ txnDone = {} /\ txnDoneUntil = 0
    /\ rdBegun = [i \in TsRange |-> 0] /\ rdDone = [i \in TsRange |-> 0] /\ rdDoneUntil = 0
    /\ lockHolder = 0
    /\ writeCh = <<>> /\ batch = <<>>
    /\ mem = {}
    /\ allCommits = {} /\ rejected = {}
    /\ result = [t \in Txns |-> "none"]

\* ---------------------------------------------------------------- watermarks (abstract)
\* largest d such that every begun txnMark index <= d had Done called
TxnBound == LET open == txnBegun \ txnDone IN
            IF open = {} THEN (IF txnBegun = {} THEN 0 ELSE CHOOSE m \in txnBegun : \A x \in txnBegun : x <= m)
            ELSE (CHOOSE m \in open : \A x \in open : m <= x) - 1
RdOpen == {i \in TsRange : rdBegun[i] > rdDone[i]}
RdMaxBegun == LET b == {i \in TsRange : rdBegun[i] > 0} IN
              IF b = {} THEN 0 ELSE CHOOSE m \in b : \A x \in b : x <= m
\* readMark indices can repeat: the bound is non-strict (WaterMark!DoneUntilSound, Unique = FALSE)
RdBound == IF RdOpen = {} THEN RdMaxBegun ELSE CHOOSE m \in RdOpen : \A x \in RdOpen : m <= x

AdvanceTxnMark ==
    /\ txnDoneUntil < TxnBound
    /\ \E d \in (txnDoneUntil + 1)..TxnBound : txnDoneUntil' = d
    /\ UNCHANGED <<pc, readTs, cts, nextTs, committedTxns, lastCleanup, txnBegun, txnDone,
                   rdBegun, rdDone, rdDoneUntil, lockHolder, writeCh, batch, mem, allCommits, rejected, result>>
AdvanceReadMark ==
    /\ rdDoneUntil < RdBound
    /\ \E d \in (rdDoneUntil + 1)..RdBound : rdDoneUntil' = d
    /\ UNCHANGED <<pc, readTs, cts, nextTs, committedTxns, lastCleanup, txnBegun, txnDone, txnDoneUntil,
                   rdBegun, rdDone, lockHolder, writeCh, batch, mem, allCommits, rejected, result>>

\* ---------------------------------------------------------------- transactions
ReadTsAlloc(t) ==
    /\ pc[t] = "idle"
    /\ readTs' = [readTs EXCEPT ![t] = nextTs - 1]
    /\ rdBegun' = [rdBegun EXCEPT ![nextTs - 1] = @ + 1]
    /\ pc' = [pc EXCEPT ![t] = "waiting"]
    /\ UNCHANGED <<cts, nextTs, committedTxns, lastCleanup, txnBegun, txnDone, txnDoneUntil, rdDone,
                   rdDoneUntil, lockHolder, writeCh, batch, mem, allCommits, rejected, result>>

ReaderReady(t) ==
    /\ pc[t] = "waiting"
    /\ txnDoneUntil >= readTs[t]
    /\ pc' = [pc EXCEPT ![t] = "active"]
    /\ UNCHANGED <<readTs, cts, nextTs, committedTxns, lastCleanup, txnBegun, txnDone, txnDoneUntil,
                   rdBegun, rdDone, rdDoneUntil, lockHolder, writeCh, batch, mem, allCommits, rejected, result>>

\* read-only transactions (and update transactions without writes) just end
Discard(t) ==
    /\ pc[t] = "active"
    /\ (~Prog[t].upd \/ Prog[t].writes = {})
    /\ rdDone' = [rdDone EXCEPT ![readTs[t]] = @ + 1]
    /\ pc' = [pc EXCEPT ![t] = "finished"]
    /\ UNCHANGED <<readTs, cts, nextTs, committedTxns, lastCleanup, txnBegun, txnDone, txnDoneUntil,
                   rdBegun, rdDoneUntil, lockHolder, writeCh, batch, mem, allCommits, rejected, result>>

StartCommit(t) ==
    /\ pc[t] = "active" /\ Prog[t].upd /\ Prog[t].writes # {}
    /\ lockHolder = 0
    /\ lockHolder' = t
    /\ pc' = [pc EXCEPT ![t] = "locked"]
    /\ UNCHANGED <<readTs, cts, nextTs, committedTxns, lastCleanup, txnBegun, txnDone, txnDoneUntil,
                   rdBegun, rdDone, rdDoneUntil, writeCh, batch, mem, allCommits, rejected, result>>

\* oracle.hasConflict on the (possibly pruned) committedTxns
HasConflict(t) == \E c \in committedTxns : c.ts > readTs[t] /\ c.keys \cap Prog[t].reads # {}
\* the contract's answer on the full history
TrueConflict(t) == \E c \in allCommits : c.ts > readTs[t] /\ c.ts \notin rejected /\ c.keys \cap Prog[t].reads # {}

NewCommitTs(t) ==
    /\ pc[t] = "locked"
    /\ IF HasConflict(t)
       THEN /\ result' = [result EXCEPT ![t] = "conflict"]
            /\ pc' = [pc EXCEPT ![t] = "discarding"]
            /\ lockHolder' = 0                       \* deferred writeChLock.Unlock
            /\ UNCHANGED <<cts, nextTs, committedTxns, lastCleanup, txnBegun, rdDone, allCommits>>
       ELSE /\ nextTs <= MaxTs
            /\ rdDone' = [rdDone EXCEPT ![readTs[t]] = @ + 1]                 \* doneRead
            /\ LET maxRead == rdDoneUntil                                      \* cleanupCommittedTransactions
                   kept == IF maxRead = lastCleanup THEN committedTxns
                           ELSE {c \in committedTxns : c.ts > maxRead}
               IN /\ lastCleanup' = maxRead
                  /\ committedTxns' = kept \cup {[ts |-> nextTs, keys |-> Prog[t].writes]}
            /\ cts' = [cts EXCEPT ![t] = nextTs]
            /\ nextTs' = nextTs + 1
            /\ txnBegun' = txnBegun \cup {nextTs}
            /\ allCommits' = allCommits \cup {[ts |-> nextTs, keys |-> Prog[t].writes, t |-> t]}
            /\ pc' = [pc EXCEPT ![t] = "stamped"]
            /\ UNCHANGED <<result, lockHolder>>
    /\ UNCHANGED <<readTs, txnDone, txnDoneUntil, rdBegun, rdDoneUntil, writeCh, batch, mem, rejected>>

\* a rejected transaction is discarded (Commit's deferred Discard -> doneRead)
DiscardRejected(t) ==
    /\ pc[t] = "discarding"
    /\ rdDone' = [rdDone EXCEPT ![readTs[t]] = @ + 1]
    /\ pc' = [pc EXCEPT ![t] = "finished"]
    /\ UNCHANGED <<readTs, cts, nextTs, committedTxns, lastCleanup, txnBegun, txnDone, txnDoneUntil,
                   rdBegun, rdDoneUntil, lockHolder, writeCh, batch, mem, allCommits, rejected, result>>

Enqueue(t) ==
    /\ pc[t] = "stamped"
    /\ writeCh' = Append(writeCh, t)
    /\ lockHolder' = 0
    /\ pc' = [pc EXCEPT ![t] = "queued"]
    /\ UNCHANGED <<readTs, cts, nextTs, committedTxns, lastCleanup, txnBegun, txnDone, txnDoneUntil,
                   rdBegun, rdDone, rdDoneUntil, batch, mem, allCommits, rejected, result>>

\* sendToWriteCh refuses the request (writes are blocked by a drop or by Close, or the request is
\* too big): commitAndSend removes the record newCommitTs appended to committedTxns (forgetCommit;
\* before "fix: forget the conflict-log record of a commit whose writes were refused" it stayed and
\* caused spurious conflicts), calls doneCommit and Commit returns the error.
EnqueueRejected(t) ==
    /\ pc[t] = "stamped"
    /\ committedTxns' = {c \in committedTxns : c.ts # cts[t]}
    /\ txnDone' = txnDone \cup {cts[t]}
    /\ rejected' = rejected \cup {cts[t]}
    /\ lockHolder' = 0
    /\ result' = [result EXCEPT ![t] = "rejected"]
    /\ pc' = [pc EXCEPT ![t] = "finished"]
    /\ UNCHANGED <<readTs, cts, nextTs, lastCleanup, txnBegun, txnDoneUntil,
                   rdBegun, rdDone, rdDoneUntil, writeCh, batch, mem, allCommits>>

\* ---------------------------------------------------------------- the writer goroutine
WriterTake ==
    /\ batch = <<>> /\ writeCh # <<>>
    /\ batch' = writeCh
    /\ writeCh' = <<>>
    /\ UNCHANGED <<pc, readTs, cts, nextTs, committedTxns, lastCleanup, txnBegun, txnDone, txnDoneUntil,
                   rdBegun, rdDone, rdDoneUntil, lockHolder, mem, allCommits, rejected, result>>

Entries(t) == {[k |-> k, ts |-> cts[t]] : k \in Prog[t].writes}
\* requests are applied in batch order, entries of one request in some order
CurReq == CHOOSE i \in 1..Len(batch) : Entries(batch[i]) \ mem # {}
                                        /\ \A j \in 1..(i - 1) : Entries(batch[j]) \subseteq mem
Unapplied == \E i \in 1..Len(batch) : Entries(batch[i]) \ mem # {}

MemPut ==
    /\ batch # <<>> /\ Unapplied
    /\ \E e \in Entries(batch[CurReq]) \ mem : mem' = mem \cup {e}
    /\ UNCHANGED <<pc, readTs, cts, nextTs, committedTxns, lastCleanup, txnBegun, txnDone, txnDoneUntil,
                   rdBegun, rdDone, rdDoneUntil, lockHolder, writeCh, batch, allCommits, rejected, result>>

BatchDone ==
    /\ batch # <<>> /\ ~Unapplied
    /\ pc' = [t \in Txns |-> IF \E i \in 1..Len(batch) : batch[i] = t THEN "applied" ELSE pc[t]]
    /\ batch' = <<>>
    /\ UNCHANGED <<readTs, cts, nextTs, committedTxns, lastCleanup, txnBegun, txnDone, txnDoneUntil,
                   rdBegun, rdDone, rdDoneUntil, lockHolder, writeCh, mem, allCommits, rejected, result>>

DoneCommit(t) ==
    /\ pc[t] = "applied"
    /\ txnDone' = txnDone \cup {cts[t]}
    /\ result' = [result EXCEPT ![t] = "ok"]
    /\ pc' = [pc EXCEPT ![t] = "finished"]
    /\ UNCHANGED <<readTs, cts, nextTs, committedTxns, lastCleanup, txnBegun, txnDoneUntil,
                   rdBegun, rdDone, rdDoneUntil, lockHolder, writeCh, batch, mem, allCommits, rejected>>

Next ==
    \/ \E t \in Txns : ReadTsAlloc(t) \/ ReaderReady(t) \/ Discard(t) \/ StartCommit(t)
                       \/ NewCommitTs(t) \/ DiscardRejected(t) \/ Enqueue(t) \/ EnqueueRejected(t) \/ DoneCommit(t)
    \/ WriterTake \/ MemPut \/ BatchDone
    \/ AdvanceTxnMark \/ AdvanceReadMark

Spec == Init /\ [][Next]_vars
Fairness == /\ WF_vars(WriterTake) /\ WF_vars(MemPut) /\ WF_vars(BatchDone)
            /\ WF_vars(AdvanceTxnMark) /\ WF_vars(AdvanceReadMark)
            /\ \A t \in Txns : WF_vars(ReaderReady(t) \/ Discard(t) \/ StartCommit(t) \/ NewCommitTs(t)
                                        \/ DiscardRejected(t) \/ Enqueue(t) \/ DoneCommit(t))
FairSpec == Spec /\ Fairness

-----------------------------------------------------------------------------
\* C34/C01/C03: no transaction reads at a timestamp while a commit at or below it is still
\* being applied: once a reader is active, every commit stamped <= its readTs is completely
\* in the memtable.
NoReaderBeforeApply ==
    \A t \in Txns : pc[t] \in {"active", "locked"} =>
        \A c \in allCommits : (c.ts <= readTs[t] /\ c.ts \notin rejected) =>
                                {[k |-> k, ts |-> c.ts] : k \in c.keys} \subseteq mem

\* C03: requests reach the write channel in commit-timestamp order
RECURSIVE Increasing(_)
Increasing(s) == Len(s) <= 1 \/ (cts[s[1]] < cts[s[2]] /\ Increasing(Tail(s)))
CommitOrderEqualsChannelOrder == Increasing(batch \o writeCh)

\* C02: pruning committedTxns with the asynchronous readMark never hides a conflict from a
\* transaction that can still commit
ConflictLogSufficient ==
    \A t \in Txns : pc[t] \in {"waiting", "active", "locked"} /\ Prog[t].upd =>
        \A c \in allCommits : (c.ts > readTs[t] /\ c.ts \notin rejected) => [ts |-> c.ts, keys |-> c.keys] \in committedTxns
DecisionEqualsContract ==
    \A t \in Txns : pc[t] = "locked" => (HasConflict(t) <=> TrueConflict(t))

\* C03: distinct, increasing commit timestamps
UniqueTs == \A a, b \in allCommits : a.t # b.t => a.ts # b.ts

\* the watermark abstraction stays within what WaterMark.tla proves
MarkSound == txnDoneUntil <= TxnBound /\ rdDoneUntil <= RdBound

\* C34/C38 liveness: every reader is eventually released, every commit eventually returns
Progress == \A t \in Txns : (pc[t] # "idle") ~> (pc[t] = "finished")
=============================================================================
