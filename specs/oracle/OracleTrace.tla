----------------------------- MODULE OracleTrace -----------------------------
(***************************************************************************)
(* Trace validation for the commit pipeline (refines Oracle.tla at the     *)
(* level of what the hooks log).  Input: NDJSON events recorded from the   *)
(* real code at its linearization points (sequence numbers taken under the *)
(* protecting lock), enriched by the driver with each transaction's read   *)
(* and write sets and the reads it observed.  Every event is one action;   *)
(* Oracle's invariants are evaluated as each event is consumed:            *)
(*   NoReaderBeforeApply, CommitOrderEqualsChannelOrder, UniqueTs,         *)
(*   DecisionEqualsContract, SnapshotRead (BadgerKV), DoneAfterApply.      *)
(* A "reset" event starts a new trace (many runs are concatenated).        *)
(***************************************************************************)
EXTENDS Integers, Sequences, FiniteSets, TLC, Json

Trace == ndJsonDeserialize("trace.ndjson")

VARIABLES l,          \* next line
          nextTs,     \* expected next commit timestamp (0 = not yet known in this run)
          stamped,    \* set of [ts, keys, dels]: successful newCommitTs so far
          rejected,   \* commit timestamps whose enqueue was rejected
          puts,       \* set of <<k, ts>> applied to the memtable
          lastEnq,    \* last commit ts pushed to the write channel
          doneSet,    \* commit ts for which doneCommit ran
          bad         \* "none" or the name of the violated rule

vars == <<l, nextTs, stamped, rejected, puts, lastEnq, doneSet, bad>>

Ev == Trace[l]
Has(f) == f \in DOMAIN Ev
SetOf(s) == {s[i] : i \in 1..Len(s)}

Applied(c) == \A k \in c.keys : <<k, c.ts>> \in puts
\* newest stamped commit at or below ts that wrote k (0 if none); del = TRUE if it deleted k
Newest(k, ts) ==
    LET cs == {c \in stamped : c.ts <= ts /\ k \in c.keys /\ c.ts \notin rejected} IN
    IF cs = {} THEN [ts |-> 0, del |-> FALSE]
    ELSE LET c == CHOOSE x \in cs : \A z \in cs : z.ts <= x.ts IN [ts |-> c.ts, del |-> k \in c.dels]

Init ==
    /\ TLCSet(1, 0)
    /\ l = 1 /\ nextTs = 0 /\ stamped = {} /\ rejected = {} /\ puts = {} /\ lastEnq = 0 /\ doneSet = {}
    /\ bad = "none"

Step(err) == /\ l' = l + 1
             /\ bad' = IF bad = "none" THEN err ELSE bad

Reset ==
    /\ Ev.ev = "reset"
    /\ nextTs' = 0 /\ stamped' = {} /\ rejected' = {} /\ puts' = {} /\ lastEnq' = 0 /\ doneSet' = {}
    /\ Step("none")

\* oracle.readTs returned: every commit stamped at or below readTs must be in the memtable
ReaderReady ==
    /\ Ev.ev = "orc.readTs.ready"
    /\ Step(IF \A c \in stamped : (c.ts <= Ev.readTs /\ c.ts \notin rejected) => Applied(c)
            THEN "none" ELSE "NoReaderBeforeApply")
    /\ UNCHANGED <<nextTs, stamped, rejected, puts, lastEnq, doneSet>>

ReadAlloc ==
    /\ Ev.ev = "orc.readTs.alloc"
    /\ Step(IF nextTs = 0 \/ Ev.readTs = nextTs - 1 THEN "none" ELSE "ReadTsIsNextMinusOne")
    /\ UNCHANGED <<nextTs, stamped, rejected, puts, lastEnq, doneSet>>

\* what the contract says about a conflict (BadgerKV!Conflict on the logged read set)
Overlap(rts, reads) == \E c \in stamped : c.ts > rts /\ c.ts \notin rejected /\ c.keys \cap reads # {}

CommitTs ==
    /\ Ev.ev = "orc.commit.ts"
    /\ LET reads == SetOf(Ev.reads) IN
       Step(IF nextTs # 0 /\ Ev.ts # nextTs THEN "UniqueIncreasingTs"
            ELSE IF \E c \in stamped : c.ts >= Ev.ts THEN "UniqueIncreasingTs"
            ELSE IF Overlap(Ev.readTs, reads) THEN "MissedConflict"
            ELSE "none")
    /\ stamped' = stamped \cup {[ts |-> Ev.ts, keys |-> SetOf(Ev.writes), dels |-> SetOf(Ev.dels)]}
    /\ nextTs' = Ev.ts + 1
    /\ UNCHANGED <<rejected, puts, lastEnq, doneSet>>

CommitConflict ==
    /\ Ev.ev = "orc.commit.conflict"
    /\ Step(IF Overlap(Ev.readTs, SetOf(Ev.reads)) THEN "none" ELSE "SpuriousConflict")
    /\ UNCHANGED <<nextTs, stamped, rejected, puts, lastEnq, doneSet>>

Enqueued ==
    /\ Ev.ev = "commit.enqueued"
    /\ Step(IF Ev.ts > lastEnq THEN "none" ELSE "CommitOrderEqualsChannelOrder")
    /\ lastEnq' = Ev.ts
    /\ UNCHANGED <<nextTs, stamped, rejected, puts, doneSet>>

Rejected ==
    /\ Ev.ev = "commit.rejected"
    /\ rejected' = rejected \cup {Ev.ts}
    /\ Step("none")
    /\ UNCHANGED <<nextTs, stamped, puts, lastEnq, doneSet>>

MemPut ==
    /\ Ev.ev = "mem.put"
    /\ puts' = puts \cup {<<Ev.k, Ev.ts>>}
    \* an entry of a transaction is applied only after it was stamped and never after doneCommit
    /\ Step(IF Ev.k = 0 THEN "none"
            ELSE IF Ev.ts \in doneSet THEN "PutAfterDoneCommit"
            ELSE "none")
    /\ UNCHANGED <<nextTs, stamped, rejected, lastEnq, doneSet>>

DoneCommit ==
    /\ Ev.ev = "orc.doneCommit"
    /\ doneSet' = doneSet \cup {Ev.ts}
    /\ Step(IF Ev.ts \in rejected THEN "none"
            ELSE IF \E c \in stamped : c.ts = Ev.ts /\ ~Applied(c) THEN "DoneBeforeApply"
            ELSE "none")
    /\ UNCHANGED <<nextTs, stamped, rejected, puts, lastEnq>>

\* the reads a transaction observed (attached by the driver to its doneRead event):
\* each must be the newest stamped write at or below its read timestamp
DoneRead ==
    /\ Ev.ev = "orc.doneRead"
    /\ Step(IF ~Has("obs") THEN "none"
            ELSE IF \A i \in 1..Len(Ev.obs) :
                      LET o == Ev.obs[i]  n == Newest(o.k, Ev.readTs) IN
                      IF n.ts = 0 \/ n.del THEN ~o.found ELSE (o.found /\ o.ts = n.ts)
                 THEN "none" ELSE "SnapshotRead")
    /\ UNCHANGED <<nextTs, stamped, rejected, puts, lastEnq, doneSet>>

Other ==
    /\ Ev.ev \notin {"reset", "orc.readTs.ready", "orc.readTs.alloc", "orc.commit.ts", "orc.commit.conflict",
                     "commit.enqueued", "commit.rejected", "mem.put", "orc.doneCommit", "orc.doneRead"}
    /\ Step("none")
    /\ UNCHANGED <<nextTs, stamped, rejected, puts, lastEnq, doneSet>>

Next == /\ l <= Len(Trace)
        /\ (Reset \/ ReaderReady \/ ReadAlloc \/ CommitTs \/ CommitConflict \/ Enqueued \/ Rejected
            \/ MemPut \/ DoneCommit \/ DoneRead \/ Other)

Spec == Init /\ [][Next]_vars

HighWater == IF l > TLCGet(1) THEN TLCSet(1, l) ELSE TRUE
Conforms == bad = "none"
Accepted == IF TLCGet(1) = Len(Trace) + 1 THEN TRUE
            ELSE PrintT(<<"REJECTED_AT", TLCGet(1)>>) /\ FALSE
=============================================================================
