--------------------------- MODULE WaterMarkTrace ---------------------------
(***************************************************************************)
(* Trace validation of y.WaterMark.process against the WaterMark module's  *)
(* ProcessOne: the hook logs, for every mark the process goroutine handled *)
(* (in channel order), its kind and index and the resulting doneUntil and  *)
(* number of waiter keys.  The specification recomputes both from its own   *)
(* state; any difference rejects the trace.  Several watermarks (by name)  *)
(* and several runs ("reset") share one file.                              *)
(***************************************************************************)
EXTENDS Integers, Sequences, FiniteSets, TLC, Json

Trace == ndJsonDeserialize("trace.ndjson")

VARIABLES l, st, bad
\* st : [name -> [pending : function idx -> count, heap : set, doneUntil, waitKeys : set of idx]]
vars == <<l, st, bad>>
Ev == Trace[l]

Fresh == [pending |-> <<>>, heap |-> {}, doneUntil |-> 0, waitKeys |-> {}]
Min(S) == CHOOSE x \in S : \A y \in S : x <= y
Get(p, i) == IF i \in DOMAIN p THEN p[i] ELSE 0

RECURSIVE Pop(_, _, _)
Pop(h, p, until) == IF h = {} THEN <<h, until>>
                    ELSE LET m == Min(h) IN IF Get(p, m) > 0 THEN <<h, until>> ELSE Pop(h \ {m}, p, m)

ProcessOne(s, i, isDone) ==
    LET prev == IF i \in s.heap THEN Get(s.pending, i) ELSE 0
        p1 == [j \in (DOMAIN s.pending) \cup {i} |-> IF j = i THEN prev + (IF isDone THEN -1 ELSE 1) ELSE s.pending[j]]
        h1 == s.heap \cup {i}
        r == Pop(h1, p1, s.doneUntil)
        h2 == r[1]
        until == r[2]
        p2 == [j \in h2 |-> p1[j]]
        cleared == IF until - s.doneUntil <= Cardinality(s.waitKeys)
                   THEN {k \in s.waitKeys : s.doneUntil + 1 <= k /\ k <= until}
                   ELSE {k \in s.waitKeys : k <= until}
    IN [pending |-> p2, heap |-> h2, doneUntil |-> until, waitKeys |-> s.waitKeys \ cleared]

Init == TLCSet(1, 0) /\ l = 1 /\ st = <<>> /\ bad = "none"

StateOf(n) == IF n \in DOMAIN st THEN st[n] ELSE Fresh
Put(n, s) == [m \in (DOMAIN st) \cup {n} |-> IF m = n THEN s ELSE st[m]]

Reset == /\ Ev.ev = "reset" /\ st' = <<>> /\ l' = l + 1 /\ UNCHANGED bad

Processed ==
    /\ Ev.ev = "wm.processed"
    /\ LET s == StateOf(Ev.name)
           s2 == IF Ev.waiter
                 THEN (IF s.doneUntil >= Ev.index THEN s ELSE [s EXCEPT !.waitKeys = @ \cup {Ev.index}])
                 ELSE ProcessOne(s, Ev.index, Ev.done)
       IN /\ st' = Put(Ev.name, s2)
          /\ bad' = IF bad # "none" THEN bad
                    ELSE IF s2.doneUntil # Ev.doneUntil THEN "DoneUntilMismatch"
                    ELSE IF Cardinality(s2.waitKeys) # Ev.nwaiters THEN "WaitersMismatch"
                    ELSE IF s2.doneUntil < s.doneUntil THEN "DoneUntilMonotone"
                    ELSE IF ~Ev.waiter /\ s.doneUntil > Ev.index THEN "AssertNeverFires"
                    ELSE "none"
    /\ l' = l + 1

Other == /\ Ev.ev \notin {"reset", "wm.processed"} /\ l' = l + 1 /\ UNCHANGED <<st, bad>>

Next == l <= Len(Trace) /\ (Reset \/ Processed \/ Other)
Spec == Init /\ [][Next]_vars
HighWater == IF l > TLCGet(1) THEN TLCSet(1, l) ELSE TRUE
Conforms == bad = "none"
Accepted == IF TLCGet(1) = Len(Trace) + 1 THEN TRUE ELSE PrintT(<<"REJECTED_AT", TLCGet(1)>>) /\ FALSE
=============================================================================
