"""Shared machinery for /verif checks: TLC runner, Go builder, evidence writer,
known-findings matching, verdict printing.  Standard library only."""
import json, os, re, shutil, subprocess, sys, tempfile, time, glob, hashlib

ROOT = os.path.dirname(os.path.dirname(os.path.abspath(__file__)))
REPO = os.environ.get("VERIF_REPO", "/repo")
SPECS = os.path.join(ROOT, "specs")
HARNESS = os.path.join(ROOT, "harness")
EVID = os.path.join(ROOT, "evidence")
TLA_CP = "/opt/veriftools/tla/tla2tools.jar:/opt/veriftools/tla/CommunityModules-deps.jar"
NCPU = os.cpu_count() or 4

EXIT_OK, EXIT_VIOLATION, EXIT_INCONCLUSIVE = 0, 1, 2


def goenv():
    e = dict(os.environ)
    e.update({"GOFLAGS": "-mod=mod", "GOPROXY": "off"})
    return e


class Inconclusive(Exception):
    """Raised when the machinery could not reach a verdict (exit 2, never a violation)."""


def log(*a):
    print("[verif]", *a, file=sys.stderr, flush=True)


# --------------------------------------------------------------------------- scratch
_scratch = []


def scratch(prefix="verif-"):
    base = os.environ.get("VERIF_TMP") or tempfile.gettempdir()
    d = tempfile.mkdtemp(prefix=prefix, dir=base)
    _scratch.append(d)
    return d


def cleanup():
    for d in _scratch:
        shutil.rmtree(d, ignore_errors=True)
    del _scratch[:]


# --------------------------------------------------------------------------- TLC
class TLCResult:
    def __init__(self):
        self.ok = False            # finished with no error
        self.violation = None      # name of violated invariant / property, or "deadlock", ...
        self.generated = 0
        self.distinct = 0
        self.depth = 0
        self.out = ""
        self.cases = []            # parsed JSON payloads of PrintT(<<"CASE", json>>) lines
        self.wall = 0.0
        self.timeout = False
        self.error_trace = ""
        self.coverage_zero = []    # action names with zero count (when coverage was requested)
        self.cmd = ""


_CASE_RE = re.compile(r'^<<"CASE", "(.*)">>$')


def _unescape_tla_string(s):
    # TLC prints strings with \" and \\ escapes
    out, i = [], 0
    while i < len(s):
        c = s[i]
        if c == "\\" and i + 1 < len(s):
            n = s[i + 1]
            out.append({"n": "\n", "t": "\t"}.get(n, n))
            i += 2
        else:
            out.append(c)
            i += 1
    return "".join(out)


def stage_specs(dirs, extra_files=()):
    """Copy the .tla/.cfg files of the given spec directories (relative to specs/) into a
    fresh scratch directory and return it."""
    d = scratch("tlc-")
    for sub in dirs:
        src = sub if os.path.isabs(sub) else os.path.join(SPECS, sub)
        for f in os.listdir(src):
            if f.endswith((".tla", ".cfg", ".json", ".ndjson")):
                shutil.copy(os.path.join(src, f), os.path.join(d, f))
    for f in extra_files:
        shutil.copy(f, os.path.join(d, os.path.basename(f)))
    return d


def run_tlc(workdir, module, cfg=None, workers=None, timeout=600, simulate=None, depth=None,
            seed=None, deadlock=False, coverage=False, dfs_queue=False, heap=None,
            view_out=False, extra_args=()):
    """Run TLC on <workdir>/<module>.tla with config cfg. Returns TLCResult.
    simulate: number of behaviours (per worker) for -simulate mode."""
    r = TLCResult()
    cfg = cfg or (module + ".cfg")
    workers = workers or NCPU
    meta = scratch("tlcmeta-")
    java = ["java", "-XX:+UseParallelGC", "-Xss64m"]
    if heap:
        java.append("-Xmx" + heap)
    if dfs_queue:
        java.append("-Dtlc2.tool.queue.IStateQueue=StateDeque")
    cmd = java + ["-cp", TLA_CP, "tlc2.TLC", "-workers", str(workers), "-metadir", meta,
                  "-config", cfg, "-nowarning"]
    if not deadlock:
        cmd.append("-deadlock")      # -deadlock disables deadlock checking
    if simulate:
        cmd += ["-simulate", "num=%d" % simulate]
        if depth:
            cmd += ["-depth", str(depth)]
    if seed is not None:
        cmd += ["-seed", str(seed)]
    if coverage:
        cmd += ["-coverage", "1"]
    cmd += list(extra_args)
    cmd.append(module + ".tla")
    r.cmd = " ".join(cmd)
    t0 = time.time()
    try:
        p = subprocess.run(cmd, cwd=workdir, stdout=subprocess.PIPE, stderr=subprocess.STDOUT,
                           timeout=timeout, text=True, errors="replace")
        r.out = p.stdout
        rc = p.returncode
    except subprocess.TimeoutExpired as e:
        r.out = (e.stdout or b"").decode("utf-8", "replace") if isinstance(e.stdout, bytes) else (e.stdout or "")
        r.timeout = True
        rc = -1
        subprocess.run(["pkill", "-f", "metadir " + meta], check=False)
    r.wall = time.time() - t0
    log("tlc %s %s: %.1fs" % (module, cfg, r.wall))
    shutil.rmtree(meta, ignore_errors=True)
    for line in r.out.splitlines():
        m = _CASE_RE.match(line.strip())
        if m:
            try:
                r.cases.append(json.loads(_unescape_tla_string(m.group(1))))
            except Exception as ex:  # malformed -> inconclusive later
                log("bad CASE line:", line[:200], ex)
    m = None
    for m in re.finditer(r"(\d[\d,]*) states generated, (\d[\d,]*) distinct states found", r.out):
        pass
    if m:
        r.generated = int(m.group(1).replace(",", ""))
        r.distinct = int(m.group(2).replace(",", ""))
    m = re.search(r"The depth of the complete state graph search is (\d+)", r.out)
    if m:
        r.depth = int(m.group(1))
    if simulate and not r.generated:
        m = re.search(r"(\d[\d,]*) states checked", r.out)
        if m:
            r.generated = int(m.group(1).replace(",", ""))
    m = re.search(r"Invariant (\S+) is violated", r.out)
    if m:
        r.violation = m.group(1)
    elif re.search(r"Temporal propert(y|ies) .*violated|Action property (\S+) is violated", r.out):
        mm = re.search(r"Action property (\S+) is violated", r.out)
        r.violation = mm.group(1) if mm else "temporal"
    elif "Deadlock reached" in r.out:
        r.violation = "deadlock"
    elif re.search(r"Error: .*POSTCONDITION|postcondition.*(false|violated)", r.out, re.I):
        r.violation = "postcondition"
    elif re.search(r"Assumption .* is false", r.out):
        r.violation = "assumption"
    if r.violation:
        i = r.out.find("Error:")
        r.error_trace = r.out[i:i + 20000] if i >= 0 else ""
    if coverage:
        for mm in re.finditer(r"<(\w+) line \d+, col \d+ to line \d+, col \d+ of module \w+>: (\d+):(\d+)", r.out):
            if mm.group(2) == "0" and mm.group(3) == "0":
                r.coverage_zero.append(mm.group(1))
    r.ok = (rc == 0 and not r.violation and not r.timeout
            and "Model checking completed. No error has been found." in r.out
            or (simulate and rc == 0 and not r.violation and not r.timeout))
    if simulate and r.timeout and not r.violation:
        # simulation under an outer timeout is the intended mode of use
        r.ok = True
    if not r.ok and not r.violation and not r.timeout:
        # TLC error (parse error, evaluation error...)
        i = r.out.find("Error")
        r.error_trace = r.out[i:i + 5000] if i >= 0 else r.out[-3000:]
    return r


def require_tlc_ok(res, what):
    """Design-level model checking must pass; a TLC failure is never a code verdict."""
    if res.ok:
        return
    if res.violation:
        raise Inconclusive("TLC reports %s violated in %s (a specification-level counterexample is "
                           "not a verdict about the code):\n%s" % (res.violation, what, res.error_trace[:3000]))
    if res.timeout:
        raise Inconclusive("TLC timed out in %s after %.0fs" % (what, res.wall))
    raise Inconclusive("TLC failed in %s:\n%s" % (what, res.error_trace[:3000]))


# --------------------------------------------------------------------------- Go
def go_build(pkg, out_name=None, tags="verif", race=False):
    """Build harness package (path relative to harness/) against the repository working
    tree (REPO, default /repo; VERIF_REPO=<scratch copy> lets mutants be tested without
    touching /repo: an alternate go.mod with the replace directive rewritten is used)."""
    alt = REPO.rstrip("/") != "/repo"
    bindir = os.path.join(ROOT, ".bin") if not alt else os.path.join(
        ROOT, ".bin-" + hashlib.sha1(REPO.encode()).hexdigest()[:8])
    os.makedirs(bindir, exist_ok=True)
    out = os.path.join(bindir, out_name or os.path.basename(pkg.rstrip("/")))
    sync_gosum()
    cmd = ["go", "build", "-tags", tags, "-o", out]
    if alt:
        modfile = os.path.join(bindir, "go.mod")
        txt = open(os.path.join(HARNESS, "go.mod")).read().replace("=> /repo", "=> " + REPO.rstrip("/"))
        open(modfile, "w").write(txt)
        shutil.copy(os.path.join(REPO, "go.sum"), os.path.join(bindir, "go.sum"))
        cmd.insert(2, "-modfile=" + modfile)
    if race:
        cmd.insert(2, "-race")
    cmd.append("./" + pkg)
    t0 = time.time()
    p = subprocess.run(cmd, cwd=HARNESS, env=goenv(), stdout=subprocess.PIPE,
                       stderr=subprocess.STDOUT, text=True)
    log("go build %s: %.1fs" % (pkg, time.time() - t0))
    if p.returncode != 0:
        raise Inconclusive("go build %s failed:\n%s" % (pkg, p.stdout[-4000:]))
    return out


def sync_gosum():
    src = os.path.join(REPO, "go.sum")
    dst = os.path.join(HARNESS, "go.sum")
    try:
        if not os.path.exists(dst) or open(src, "rb").read() != open(dst, "rb").read():
            shutil.copy(src, dst)
    except OSError:
        pass


def run(cmd, timeout=600, cwd=None, env=None, input=None):
    t0 = time.time()
    try:
        p = subprocess.run(cmd, cwd=cwd, env=env or goenv(), stdout=subprocess.PIPE,
                           stderr=subprocess.PIPE, timeout=timeout, text=True, errors="replace",
                           input=input)
        return p.returncode, p.stdout, p.stderr, time.time() - t0
    except subprocess.TimeoutExpired as e:
        so = e.stdout.decode("utf-8", "replace") if isinstance(e.stdout, bytes) else (e.stdout or "")
        se = e.stderr.decode("utf-8", "replace") if isinstance(e.stderr, bytes) else (e.stderr or "")
        return -9, so, se, time.time() - t0


# --------------------------------------------------------------------------- findings
def load_known():
    paths = [os.path.join(ROOT, "known_findings.jsonl")] + sorted(glob.glob(os.path.join(ROOT, "known_findings.d", "*.jsonl")))
    out = []
    for path in paths:
        if os.path.exists(path):
            for line in open(path):
                line = line.strip()
                if not line or line.startswith("#"):
                    continue
                out.append(json.loads(line))
    return out


class Check:
    """One run of one property's check."""

    def __init__(self, prop, level, argv=None):
        self.prop = prop
        self.level = level
        self.tier = os.environ.get("VERIF_TIER", "quick")
        self.replay = None
        argv = list(sys.argv[1:] if argv is None else argv)
        while argv:
            a = argv.pop(0)
            if a == "--tier":
                self.tier = argv.pop(0)
            elif a == "--replay":
                self.replay = argv.pop(0)
        if self.tier not in ("quick", "thorough"):
            self.tier = "quick"
        try:
            self.seed = int(os.environ.get("VERIF_SEED", "1"))
        except ValueError:
            self.seed = 1
        self.t0 = time.time()
        self.cov = {"samples": [], "states": 0, "transitions": 0,
                    "traces_validated_against_impl": 0, "evaluations": 0,
                    "distinct_nontrivial": 0, "rule": "", "tlc_runs": [], "engines": []}
        self.assumptions = []
        self.violations = []       # unlisted
        self.known_hits = []
        self.known = [k for k in load_known() if k.get("property") == prop and k.get("status", "known") == "known"]
        self._distinct = set()
        self.quick = self.tier == "quick"

    # -- coverage accounting
    def add_tlc(self, name, res):
        self.cov["states"] += res.distinct
        self.cov["transitions"] += res.generated
        self.cov["tlc_runs"].append({"config": name, "distinct_states": res.distinct,
                                     "states_generated": res.generated, "depth": res.depth,
                                     "wall_s": round(res.wall, 1), "ok": res.ok,
                                     "zero_coverage_actions": res.coverage_zero[:20]})

    def add_cases(self, n_eval, distinct_keys=None, traces=0):
        self.cov["evaluations"] += n_eval
        if distinct_keys is not None:
            for k in distinct_keys:
                self._distinct.add(k)
            self.cov["distinct_nontrivial"] = len(self._distinct)
        self.cov["traces_validated_against_impl"] += traces

    def sample(self, obj, limit=5):
        if len(self.cov["samples"]) < limit:
            self.cov["samples"].append(obj)

    # -- verdicts
    def violation(self, sig, detail, replay_obj=None):
        """Report a deviation observed in the real code. sig is a stable signature string;
        if it matches a known finding, it is reported as KNOWN-FINDING instead."""
        for k in self.known:
            if re.search(k["signature"], sig):
                if k["signature"] not in [h["signature"] for h in self.known_hits]:
                    self.known_hits.append(k)
                    print("KNOWN-FINDING: property=%s %s" % (self.prop, k.get("what", k["signature"])), flush=True)
                return False
        path = ""
        if replay_obj is not None:
            d = os.path.join(EVID, "replays", self.prop)
            os.makedirs(d, exist_ok=True)
            h = hashlib.sha1(json.dumps(replay_obj, sort_keys=True, default=str).encode()).hexdigest()[:12]
            path = os.path.join(d, "%s.json" % h)
            with open(path, "w") as f:
                json.dump({"property": self.prop, "signature": sig, "detail": detail, "case": replay_obj},
                          f, indent=1, default=str)
        self.violations.append({"sig": sig, "detail": detail, "replay": path})
        log("violation:", sig, str(detail)[:2000])
        return True

    def finish(self, inconclusive=False):
        wall = time.time() - self.t0
        cov = self.cov
        if not cov["samples"]:
            cov["samples"] = ["(no sample recorded)"]
        ev = {"property_id": self.prop, "tier": self.tier, "seed": self.seed, "level": self.level,
              "coverage": cov, "assumptions": self.assumptions, "wall_s": round(wall, 2),
              "violations": len(self.violations),
              "known_findings_reported": [k.get("what", "") for k in self.known_hits]}
        os.makedirs(EVID, exist_ok=True)
        with open(os.path.join(EVID, self.prop + ".json"), "w") as f:
            json.dump(ev, f, indent=1, default=str)
        cleanup()
        if self.violations:
            seen = set()
            for v in self.violations:
                if v["sig"] in seen:
                    continue
                seen.add(v["sig"])
                print("VIOLATION property=%s replay=%s" % (self.prop, v["replay"] or "-"), flush=True)
                print("  signature: %s" % v["sig"], flush=True)
            return EXIT_VIOLATION
        print("%s property=%s tier=%s seed=%d states=%d cases=%d traces=%d wall=%.1fs" % (
            "INCONCLUSIVE" if inconclusive else "OK", self.prop, self.tier, self.seed, cov["states"], cov["evaluations"],
            cov["traces_validated_against_impl"], wall), flush=True)
        return EXIT_INCONCLUSIVE if inconclusive else EXIT_OK


def main(prop, level, body):
    """Run body(check) with the standard verdict policy."""
    c = Check(prop, level)
    try:
        body(c)
        rc = c.finish()
    except Inconclusive as e:
        log("INCONCLUSIVE:", e)
        # still write an evidence file describing what was covered so far
        c.cov["explanation"] = "inconclusive: %s" % str(e)[:500]
        rc = EXIT_INCONCLUSIVE
        try:
            if c.finish(inconclusive=True) == EXIT_VIOLATION:
                rc = EXIT_VIOLATION
        except Exception:
            pass
        cleanup()
    except Exception:
        import traceback
        traceback.print_exc()
        cleanup()
        rc = EXIT_INCONCLUSIVE
    sys.exit(rc)
