#!/usr/bin/env python3
"""Regenerates MANIFEST.json from tools/registry.json (one entry per claimed property) and
properties.jsonl (everything not claimed goes to not_applicable with its reason)."""
import json, os, subprocess
ROOT = os.path.dirname(os.path.dirname(os.path.abspath(__file__)))
props = [json.loads(l) for l in open(os.path.join(ROOT, "properties.jsonl"))]
reg = json.load(open(os.path.join(ROOT, "tools", "registry.json")))
import glob
_en = os.path.join(ROOT, "tools", "registry.d", "enabled.txt")
enabled = set(open(_en).read().split()) if os.path.exists(_en) else set()
for frag in sorted(glob.glob(os.path.join(ROOT, "tools", "registry.d", "*.json"))):
    if os.path.basename(frag) not in enabled:
        continue
    fr = json.load(open(frag))
    reg["checks"].update(fr.get("checks", {}))
    reg.setdefault("engines", []).extend(fr.get("engines", []))
    reg.setdefault("not_applicable", {}).update(fr.get("not_applicable", {}))
checks = []
for p in props:
    r = reg["checks"].get(p["id"])
    if not r:
        continue
    checks.append({
        "property_id": p["id"],
        "quick_cmd": "bin/check %s --tier quick" % p["id"],
        "thorough_cmd": "bin/check %s --tier thorough" % p["id"],
        "evidence_file": "/verif/evidence/%s.json" % p["id"],
        "replay_cmd_template": "bin/check %s --replay {path}" % p["id"],
        "engine": r.get("engine", ""),
        "level_claimed": {"category": r["level"], "text": r["text"], "design_ref": r.get("design_ref", "DESIGN.md section 6")},
        "level_note": r["note"],
        "technique": r["technique"],
    })
na = []
for p in props:
    if p["id"] not in reg["checks"]:
        na.append({"property_id": p["id"], "reason": reg.get("not_applicable", {}).get(
            p["id"], "check not built yet (planned: DESIGN.md section 6)")})
try:
    commits = subprocess.run(["git", "-C", "/repo", "log", "--format=%h %s", "--grep=^verif:"],
                             stdout=subprocess.PIPE, text=True).stdout.strip().splitlines()
except Exception:
    commits = []
m = {
    "version": 1,
    "setup_cmd": "cd /verif/harness && cp /repo/go.sum . && GOFLAGS=-mod=mod GOPROXY=off go build -tags verif ./... && echo harness-built",
    "hooks": {
        "guard": "verif",
        "enable": "go build -tags verif; the harness module (/verif/harness) has 'replace github.com/dgraph-io/badger/v4 => /repo', so every check rebuilds /repo's working tree with hooks on",
        "baseline_off_cmd": "cd /repo && go test -mod=mod -vet=off -count=1 -timeout 25m ./...",
        "source_commits": [c.split()[0] for c in commits],
        "add_only": True,
    },
    "engines": reg.get("engines", []),
    "checks": checks,
    "not_applicable": na,
    "notes": reg.get("notes", ""),
}
json.dump(m, open(os.path.join(ROOT, "MANIFEST.json"), "w"), indent=1)
print("MANIFEST.json: %d checks, %d not_applicable" % (len(checks), len(na)))
